//go:build verif

package main

// C12 — access rules and route authentication gate every request.
//
// Rider on H2 plus a small TCP environment in the same simulated network:
//
//   - HTTP: the real http.Server + main.newHTTPProxy (which loads the auth
//     schemes through auth.LoadAuthSchemes from htpasswd files) with routes that
//     carry allow=/deny= lists and auth= names; raw clients connect from
//     generated peer addresses (IPv4, IPv6, IPv4-mapped, zone-scoped
//     link-local) and send X-Forwarded-For chains and Authorization headers;
//     the Authorization headers of a run form one ordered history of attempts
//     per scheme instance (c12Hist): logins, then variants of what has logged
//     in, then logins again, on the same and on new connections.
//   - TCP: tcp.Server with tcp.Proxy / tcp.SNIProxy / tcp.DynamicProxy wired
//     with main.lookupHostFn, one listener per route; raw clients (a genuine
//     ClientHello for SNI) and greeting upstreams.
//
//   - the routing table is not built once: the same table text is parsed one to
//     three times before serving and rebuilt tables (same text, or one more
//     instance of a service) are installed between requests, as the registry
//     watcher does after every change; services have one or two instances
//     with the same options and routes may share their allow=/deny= string.
//   - HTPASSWD RELOAD: in two of five runs with HTTP routes a basic scheme is
//     configured with a refresh interval. fabio's reload goroutine is a task
//     (main.newHTTPProxy runs inside a task, so the goroutine it starts is a
//     child task that sleeps on the simulated clock); the htpasswd file lives in
//     a temp dir on the real disk and goes through a generated history
//     (entries added / removed / re-keyed, file removed, restored as it was or
//     rewritten, a directory or a dangling symlink in its place, lines that
//     are no entries), every change made by the driver at a quiescent point
//     with an explicit modification time. After a change the clock moves over
//     one refresh interval (+ slack) and further clients present what is and
//     what used to be in the file.
//   - in a fraction of the runs the handlers are tasks (statement-level
//     interleaving of fabio's decision code): HTTP handler goroutines are
//     adopted, the tcp.Server accept loops are tasks so that their
//     per-connection goroutines are child tasks, and several clients from
//     admitted and refused addresses work on ONE route at the same time.
//
// The oracle is a reference evaluation with net/netip written from the
// property statement and docs/content/feature/access-control.md. "No upstream
// is contacted" is read from the simulated network: every dial attempt fabio
// makes is recorded together with the requests/connections that are inside a
// fabio handler at that instant.

import (
	"bufio"
	"bytes"
	"context"
	"crypto/sha1"
	"crypto/tls"
	"encoding/base64"
	"fmt"
	"io"
	"net"
	"net/http"
	"net/netip"
	"os"
	"path/filepath"
	"sort"
	"strings"
	"sync"
	"testing/synctest"
	"time"

	proxyproto "github.com/armon/go-proxyproto"
	"golang.org/x/crypto/bcrypt"

	"github.com/fabiolb/fabio/config"
	"github.com/fabiolb/fabio/internal/zzverif/simcore"
	"github.com/fabiolb/fabio/internal/zzverif/simhook"
	"github.com/fabiolb/fabio/internal/zzverif/simnet"
	"github.com/fabiolb/fabio/metrics"
	"github.com/fabiolb/fabio/proxy"
	"github.com/fabiolb/fabio/proxy/tcp"
	"github.com/fabiolb/fabio/route"
)

func init() {
	zzHarnesses = append(zzHarnesses, &simcore.Harness{Name: "c12", Props: []string{"C12"}, Run: runC12})
}

// ---------------------------------------------------------------- reference model

const (
	c12Admit  = "admit"
	c12Reject = "reject"
	c12Either = "either" // the statement makes no demand (see the readings in props.d/C12.json)
)

// c12Ref is the rule set of one route as the property text and the access-control
// documentation describe it: items "ip:<addr>" or "ip:<addr>/<len>", a single
// address standing for its /32 or /128 block.
type c12Ref struct {
	hasAllow, hasDeny bool
	allow, deny       []netip.Prefix
	malformed         bool // an item cannot be parsed, or allow and deny are both given ("one of allow or deny")
}

func c12ParseItem(item string) (netip.Prefix, bool) {
	typ, data, ok := strings.Cut(item, ":")
	if !ok || typ != "ip" {
		return netip.Prefix{}, false
	}
	var p netip.Prefix
	if strings.Contains(data, "/") {
		var err error
		if p, err = netip.ParsePrefix(data); err != nil {
			return netip.Prefix{}, false
		}
	} else {
		a, err := netip.ParseAddr(data)
		if err != nil || a.Zone() != "" {
			return netip.Prefix{}, false
		}
		p = netip.PrefixFrom(a, a.BitLen())
	}
	if p.Addr().Is4In6() {
		// an IPv4-mapped block denotes the IPv4 block (only generated with >= 96 bits)
		if p.Bits() < 96 {
			return netip.Prefix{}, false
		}
		p = netip.PrefixFrom(p.Addr().Unmap(), p.Bits()-96)
	}
	return p.Masked(), true
}

func c12NewRef(allow, deny []string) *c12Ref {
	f := &c12Ref{hasAllow: len(allow) > 0, hasDeny: len(deny) > 0}
	for _, it := range allow {
		if p, ok := c12ParseItem(it); ok {
			f.allow = append(f.allow, p)
		} else {
			f.malformed = true
		}
	}
	for _, it := range deny {
		if p, ok := c12ParseItem(it); ok {
			f.deny = append(f.deny, p)
		} else {
			f.malformed = true
		}
	}
	if f.hasAllow && f.hasDeny {
		f.malformed = true
	}
	return f
}

func (f *c12Ref) any() bool { return f.hasAllow || f.hasDeny }

func c12In(list []netip.Prefix, a netip.Addr) bool {
	for _, p := range list {
		if p.Contains(a) {
			return true
		}
	}
	return false
}

// rejects: the well-formed part of the rule set rejects the address (zone dropped,
// IPv4-mapped IPv6 taken as the IPv4 address it denotes).
func (f *c12Ref) rejects(a netip.Addr) bool {
	a = a.WithZone("").Unmap()
	if f.hasAllow && !c12In(f.allow, a) {
		return true
	}
	if f.hasDeny && c12In(f.deny, a) {
		return true
	}
	return false
}

// c12XFF splits the X-Forwarded-For header lines into elements.
type c12Elem struct {
	Line  int
	Text  string
	Addr  netip.Addr
	Clean bool // parses as an address without zone
	Zoned bool // parses only as a zone-scoped address: ambiguous, no demand is derived from it
}

func c12SplitXFF(lines []string) []c12Elem {
	var out []c12Elem
	for i, l := range lines {
		for _, el := range strings.Split(l, ",") {
			el = strings.Trim(el, " \t")
			e := c12Elem{Line: i, Text: el}
			if a, err := netip.ParseAddr(el); err == nil {
				e.Addr = a
				if a.Zone() == "" {
					e.Clean = true
				} else {
					e.Zoned = true
				}
			}
			out = append(out, e)
		}
	}
	return out
}

// c12Access evaluates the access rules for a peer and (HTTP) an XFF chain.
func (f *c12Ref) access(peer netip.Addr, xff []string) (verdict, why string) {
	if !f.any() {
		return c12Admit, ""
	}
	ambiguous := false
	why = ""
	if f.rejects(peer) {
		why = "peer"
		if peer.Zone() != "" {
			why = "zone-scoped-peer"
		}
	} else if peer.Zone() != "" {
		ambiguous = true // whether a zone-scoped address is "inside" an unscoped block is not demanded
	}
	if why == "" {
		for _, e := range c12SplitXFF(xff) {
			if (e.Zoned && f.rejects(e.Addr)) || (!e.Zoned && !e.Clean) {
				// an element that is not a plain address is skipped when looking for a reason to refuse
				// (narrow reading); whether its presence alone may cause a refusal is not demanded either
				ambiguous = true
			}
			if e.Clean && f.rejects(e.Addr) {
				why = "xff-element"
				if e.Line > 0 {
					why = "xff-later-header-line"
				}
				break
			}
		}
	}
	if why != "" {
		switch {
		case f.malformed && why == "zone-scoped-peer":
			why = "unparsable-rule+zone-scoped-peer"
		case f.malformed:
			why = "unparsable-rule"
		}
		return c12Reject, why
	}
	if f.malformed || ambiguous {
		return c12Either, ""
	}
	return c12Admit, ""
}

// c12BasicCreds reads an Authorization header value as RFC 7617 describes it.
func c12BasicCreds(h string) (user, pw string, ok bool) {
	scheme, rest, found := strings.Cut(h, " ")
	if !found || !strings.EqualFold(scheme, "Basic") {
		return "", "", false
	}
	raw, err := base64.StdEncoding.DecodeString(rest)
	if err != nil {
		return "", "", false
	}
	return strings.Cut(string(raw), ":")
}

type c12Pair struct{ User, Pw string }

// c12Entry is one line "user:encoded-password" of an htpasswd file.
type c12Entry struct {
	User string `json:"user"`
	Pw   string `json:"password"`
	Enc  string `json:"encoding"` // plain | sha | apr1 (only for the one password whose hash is written out below) | bcrypt
}

// the htpasswd files behind the two defined schemes as they are when fabio starts, in file order
var c12Initial = map[string][]c12Entry{
	"basic1": {{"alice", "wonderland", "plain"}, {"bob", "builder", "sha"}, {"carol", "s3cret:colon", "apr1"}, {"dave", "hunter2", "bcrypt"}},
	"basic2": {{"erin", "pw2", "plain"}, {"alice", "other-pw", "plain"}},
}

// c12Valid: the pairs the initial files admit (also: which scheme names are defined)
var c12Valid = map[string][]c12Pair{}

func init() {
	for s, es := range c12Initial {
		c12Valid[s] = (&c12File{Kind: "entries", Entries: es}).pairs()
	}
}

// c12File is one state of the path a scheme's htpasswd file is configured at.
type c12File struct {
	Kind    string     `json:"state"` // entries (a regular file) | removed | dangling-symlink | directory
	Entries []c12Entry `json:"entries,omitempty"`
	Junk    []c12Junk  `json:"lines_that_are_no_entries,omitempty"`
	NoEOL   bool       `json:"last_line_without_newline,omitempty"`
	// Ver numbers the versions written for one scheme (0 = the file fabio starts with). A version put back
	// "as it was" (moved away and back, cp -p from a backup) keeps number, content and modification time.
	Ver      int  `json:"version"`
	OldMTime bool `json:"modification_time_in_the_past,omitempty"` // written with a modification time older than every other version (else: the simulated instant of the change)
}

type c12Junk struct {
	Before int    `json:"before_entry"`
	Line   string `json:"line"`
}

// pairs: the credentials the path admits in this state. Only a regular file has entries; a path that is
// absent or cannot be read as a file admits nobody (reading written down in props.d/C12.json).
func (f *c12File) pairs() []c12Pair {
	if f == nil || f.Kind != "entries" {
		return nil
	}
	var out []c12Pair
	for _, e := range f.Entries {
		out = append(out, c12Pair{e.User, e.Pw})
	}
	return out
}

// c12Auth is stateless on purpose: whatever was presented to the scheme before, a
// pair is accepted iff it is exactly one of the entries (valid) of the scheme's htpasswd file.
func c12Auth(scheme string, valid []c12Pair, authz []string) (verdict, why string) {
	if scheme == "" {
		return c12Admit, ""
	}
	if _, defined := c12Valid[scheme]; !defined {
		return c12Reject, "unknown-scheme"
	}
	if len(authz) == 0 {
		return c12Reject, "no-credentials"
	}
	user, pw, ok := c12BasicCreds(authz[0])
	if !ok {
		return c12Reject, "credentials"
	}
	for _, e := range valid {
		if e.User == user && e.Pw == pw {
			return c12Admit, ""
		}
	}
	return c12Reject, "credentials"
}

func c12HasPair(list []c12Pair, p c12Pair) bool {
	for _, x := range list {
		if x == p {
			return true
		}
	}
	return false
}

func c12Combine(av, awhy, uv, uwhy string) (string, string) {
	if av == c12Reject {
		return av, awhy
	}
	if uv == c12Reject {
		return uv, uwhy
	}
	if uv == c12Either {
		return c12Either, ""
	}
	return av, ""
}

// ---------------------------------------------------------------- scenario

type c12Route struct {
	Proto  string   `json:"proto"` // http | tcp | sni | dyn
	Src    string   `json:"src"`
	Key    string   `json:"upstream"`
	More   []string `json:"further_instances,omitempty"`   // more instances of the same service: same options, own upstream
	Shares int      `json:"same_rules_as_route,omitempty"` // 1+index of the earlier route whose allow=/deny= string this one repeats
	Listen string   `json:"listener,omitempty"`
	Allow  []string `json:"allow,omitempty"` // the items between the commas
	Deny   []string `json:"deny,omitempty"`
	Auth   string   `json:"auth,omitempty"`
	// Pxy: the TCP listener of the route expects the PROXY protocol (pxyproto=true): it is wrapped with
	// go-proxyproto exactly as proxy.ListenTCP wraps a real listener; PxyTimeoutMs is the listener's pxytimeout.
	Pxy          bool `json:"listener_pxyproto,omitempty"`
	PxyTimeoutMs int  `json:"listener_pxytimeout_ms,omitempty"`
	ref          *c12Ref
}

// c12PxyHdr is what a client connection sends before its request or stream on a listener with pxyproto=true.
type c12PxyHdr struct {
	Kind string `json:"kind,omitempty"`           // "" no header | TCP4 | TCP6 | UNKNOWN
	Src  string `json:"source_address,omitempty"` // the client address the header names (TCP4/TCP6)
	Line string `json:"line,omitempty"`           // the header as written, without the final CR LF
}

type c12Conn struct {
	ID     string `json:"id"`
	Addr   string `json:"addr"`
	Route  int    `json:"route"`
	Early  bool   `json:"closes_at_once,omitempty"`
	Chunks []int  `json:"chunks,omitempty"`
	// Addr is the socket address; on a pxyproto listener the connection starts with Hdr
	Hdr c12PxyHdr `json:"proxy_header,omitempty"`
}

type c12Expect struct {
	ID      string `json:"id"`
	Verdict string `json:"reference"`
	Why     string `json:"why,omitempty"`
	Attempt string `json:"credentials,omitempty"` // how the generator derived the Authorization header (not used by the oracle)
	route   int
	proto   string
	// for the reach counters only
	authVerdict string
	ordered     bool // derived from a pair that logged in earlier on the same client (strictly earlier in time)
	epoch       int  // number of the epoch (0 = before any change of an htpasswd file)
	window      bool // sent between a change of the file and the end of the refresh interval
	ws          bool // a websocket upgrade request
	hdr         string
	// closedOK: the connection starts with "PROXY UNKNOWN": the judged address is the socket address, and a
	// connection that is closed without an answer counts as refused (the PROXY layer may turn the connection down)
	closedOK bool
}

// c12Change puts the path of a scheme's htpasswd file into another state.
type c12Change struct {
	Scheme string  `json:"scheme"`
	What   string  `json:"what"`
	File   c12File `json:"path_becomes"`
	// GapMs: simulated time that passes before the next change of the same epoch (less than one refresh interval)
	GapMs int `json:"then_clock_advances_ms,omitempty"`
}

// c12Epoch: the changes are made (by the driver, at a quiescent point), the window clients start and the
// driver makes Pre steps (0: until they are done), the clock moves over the longest refresh interval plus
// slack, the window clients finish, then the clients of the epoch run to completion.
type c12Epoch struct {
	Changes []c12Change `json:"htpasswd_changes,omitempty"`
	Window  []int       `json:"clients_started_right_after_the_change,omitempty"` // indices into http_clients
	Pre     int         `json:"driver_steps_before_the_clock_moves,omitempty"`
	Clients []int       `json:"clients_started_after_refresh_interval"`
}

// c12Rebuild: while the clients are at work the table is built again from the route
// commands and installed (route.NewTable + route.SetTable, what the registry watcher
// does after every change): the same commands, or with one more instance of a service.
type c12Rebuild struct {
	After int    `json:"after_handler_entries"`  // offered to the driver once this many requests/connections have reached a handler
	Add   int    `json:"adds_instance_to_route"` // -1: same commands
	Key   string `json:"instance,omitempty"`
}

type c12Scenario struct {
	Routes []c12Route `json:"routes"`
	// Builds: how often the table text is parsed (and installed) before the listeners
	// serve; the table that serves is the last one.
	Builds   int          `json:"table_builds_before_serving"`
	Rebuilds []c12Rebuild `json:"table_rebuilds_while_serving,omitempty"`
	// Tasked: the handler goroutines are tasks, so requests and connections of different
	// peers interleave at every statement of the code named by Focus.
	Tasked bool   `json:"handlers_interleaved_statement_by_statement,omitempty"`
	Focus  string `json:"interleaved_code,omitempty"` // decision: route.Target methods and package auth; all: route, proxy, proxy/tcp, auth
	Stick  int    `json:"stick,omitempty"`
	// Refresh: refresh interval (seconds) of the defined basic schemes; absent or 0 = off, the file is read once.
	// A scheme with an interval has fabio's reload goroutine (a task on the simulated clock).
	Refresh map[string]int `json:"htpasswd_refresh_s,omitempty"`
	// Epochs: epoch 0 has no changes; every later one starts with changes of htpasswd files.
	Epochs []c12Epoch `json:"epochs"`
	// HTTPPxy: the HTTP listener expects the PROXY protocol (pxyproto=true, wrapped as proxy.ListenTCP does).
	// ClientHdr[i] is the header every connection of http_clients[i] starts with (addr of the client = socket address).
	HTTPPxy          bool        `json:"http_listener_pxyproto,omitempty"`
	HTTPPxyTimeoutMs int         `json:"http_listener_pxytimeout_ms,omitempty"`
	ClientHdr        []c12PxyHdr `json:"http_client_proxy_headers,omitempty"`
	Clients          []h2Client  `json:"http_clients,omitempty"`
	Conns            []c12Conn   `json:"tcp_clients,omitempty"`
	Expect           []c12Expect `json:"reference"`
}

// keysAt lists the upstreams of route j in table version v (0 = the commands the run starts with).
func (sc *c12Scenario) keysAt(j, v int) []string {
	rt := &sc.Routes[j]
	ks := append([]string{rt.Key}, rt.More...)
	for k := 0; k < v && k < len(sc.Rebuilds); k++ {
		if sc.Rebuilds[k].Add == j {
			ks = append(ks, sc.Rebuilds[k].Key)
		}
	}
	return ks
}

func (sc *c12Scenario) keys(j int) []string { return sc.keysAt(j, len(sc.Rebuilds)) }

var c12V4Blocks = []string{"10.0.0.0/8", "192.168.1.0/24", "192.0.2.7", "172.16.0.0/12", "198.51.100.128/25", "203.0.113.4/30", "10.1.2.3/8", "100.64.0.0/10", "192.0.2.255/32", "203.0.113.9/31", "0.0.0.0/0"}
var c12V6Blocks = []string{"fe80::/10", "2001:db8::/32", "2001:db8::1", "2001:db8:1:2::/64", "fe80::1234", "fd00::/8", "::1", "fe80::/64", "::ffff:192.0.2.0/120", "::ffff:10.9.8.7", "2001:db8:ffff::/127", "2001:0DB8:0:0::/48", "FE80::/10", "::/0"}
var c12BadItems = []string{"ip:10.0.0.0/33", "ip:2001:db8::/129", "ip:300.1.1.1", "ip:10.0.0", "ip:", "", "host:example.com", "ip:10.0.0.0/8/8", "ip:10.0.0.1-10.0.0.9", "ip:fe80::1%eth0", "nonsense", "ip:10.0.0.0/-1", "cidr:10.0.0.0/8", "ip:10.0.0.0/", "ip:/8", "ip:2001:db8:::1"}
var c12Pool = []string{"192.0.2.10", "10.1.2.3", "10.255.255.255", "11.0.0.0", "192.168.1.77", "192.168.2.1", "172.31.255.255", "172.32.0.0", "8.8.8.8", "203.0.113.5", "203.0.113.8",
	"2001:db8::1", "2001:db8:1:2::abcd", "2001:db9::1", "fe80::1", "fe80::1234", "fe80:0:0:1::5", "febf::1", "fec0::1", "fd12:3456::1", "::1", "::ffff:192.0.2.77", "::ffff:10.9.8.7", "198.51.100.127", "198.51.100.128"}
var c12Garbage = []string{"unknown", "", "10.0.0.1:8080", "[2001:db8::1]", "_hidden", "10.0.0.300", "localhost", "10.0.0", "1.2.3.4/32", "::ffff:999.1.1.1"}
var c12Zones = []string{"eth0", "en1", "7"}

func c12Inside(g *simcore.Tape, p netip.Prefix) netip.Addr {
	b := p.Masked().Addr().AsSlice()
	mode := g.Intn(3) // base, last, random host bits
	var rnd []byte
	if mode == 2 {
		rnd = g.Bytes(len(b))
	}
	for i := p.Bits(); i < len(b)*8; i++ {
		bit := byte(0)
		switch mode {
		case 1:
			bit = 1
		case 2:
			bit = rnd[i/8] >> (7 - uint(i%8)) & 1
		}
		if bit == 1 {
			b[i/8] |= 1 << (7 - uint(i%8))
		}
	}
	a, _ := netip.AddrFromSlice(b)
	return a
}

func c12Last(p netip.Prefix) netip.Addr {
	b := p.Masked().Addr().AsSlice()
	for i := p.Bits(); i < len(b)*8; i++ {
		b[i/8] |= 1 << (7 - uint(i%8))
	}
	a, _ := netip.AddrFromSlice(b)
	return a
}

// c12Addr generates an address that is interesting for the rules of rt: inside a
// block, just outside one, or from a fixed pool.
func c12Addr(g *simcore.Tape, rt *c12Route) netip.Addr {
	var blocks []netip.Prefix
	blocks = append(blocks, rt.ref.allow...)
	blocks = append(blocks, rt.ref.deny...)
	var a netip.Addr
	switch s := g.Intn(4); {
	case s == 0 && len(blocks) > 0:
		a = c12Inside(g, simcore.Pick(g, blocks))
	case s == 1 && len(blocks) > 0:
		p := simcore.Pick(g, blocks)
		if g.Bool() {
			a = c12Last(p).Next()
		} else {
			a = p.Masked().Addr().Prev()
		}
	}
	if !a.IsValid() {
		a = netip.MustParseAddr(simcore.Pick(g, c12Pool))
	}
	if a.Is4() && g.Chance(10) {
		a = netip.AddrFrom16(a.As16()) // the IPv4-mapped form of the same address
	}
	if a.Is6() && !a.Is4In6() && a.IsLinkLocalUnicast() && g.Chance(50) {
		a = a.WithZone(simcore.Pick(g, c12Zones))
	}
	return a
}

// c12Admitted prefers an address the well-formed part of the rules does not reject.
func c12Admitted(g *simcore.Tape, rt *c12Route) netip.Addr {
	var a netip.Addr
	for i := 0; i < 6; i++ {
		a = c12Addr(g, rt)
		if !rt.ref.rejects(a) {
			break
		}
	}
	return a
}

// c12Refused prefers an address the well-formed part of the rules rejects.
func c12Refused(g *simcore.Tape, rt *c12Route) netip.Addr {
	var a netip.Addr
	for i := 0; i < 6; i++ {
		a = c12Addr(g, rt)
		if rt.ref.rejects(a) {
			break
		}
	}
	return a
}

// c12RandBlock writes a random IPv4 or IPv6 block with an arbitrary prefix length
// (the base keeps its host bits, which CIDR notation permits).
func c12RandBlock(g *simcore.Tape) string {
	if g.Bool() {
		b := g.Bytes(16)
		b[0] = 0x20 | b[0]&0x0f // 2000::/4, never IPv4-mapped
		a, _ := netip.AddrFromSlice(b)
		return netip.PrefixFrom(a, g.Range(0, 128)).String()
	}
	a, _ := netip.AddrFromSlice(g.Bytes(4))
	return netip.PrefixFrom(a, g.Range(0, 32)).String()
}

// c12GenRules draws the allow=/deny= option of rt; one route in four repeats the option
// string of an earlier route of the run (services are usually registered with the same tags).
func c12GenRules(g *simcore.Tape, rt *c12Route, earlier []c12Route) {
	if len(earlier) > 0 && g.Chance(25) {
		k := g.Intn(len(earlier))
		rt.Allow, rt.Deny, rt.Shares = earlier[k].Allow, earlier[k].Deny, k+1
		rt.ref = c12NewRef(rt.Allow, rt.Deny)
		return
	}
	items := func() []string {
		n := g.Range(1, 4)
		var out []string
		for i := 0; i < n; i++ {
			switch {
			case g.Chance(9):
				out = append(out, simcore.Pick(g, c12BadItems))
			case g.Chance(20):
				out = append(out, "ip:"+c12RandBlock(g))
			case g.Chance(35):
				out = append(out, "ip:"+simcore.Pick(g, c12V6Blocks))
			default:
				out = append(out, "ip:"+simcore.Pick(g, c12V4Blocks))
			}
		}
		if strings.Join(out, ",") == "" {
			out = []string{"", ""} // "allow=," : two empty items ("allow=" alone would be no list at all)
		}
		return out
	}
	switch simcore.Pick(g, []string{"allow", "deny", "allow", "deny", "none", "both", "allow", "deny"}) {
	case "allow":
		rt.Allow = items()
	case "deny":
		rt.Deny = items()
	case "both":
		rt.Allow = items()
		rt.Deny = items()
	}
	rt.ref = c12NewRef(rt.Allow, rt.Deny)
}

var c12PxyTimeouts = []int{250, 0, 1000}

// line writes the header for a connection whose socket has source port sport.
func (h c12PxyHdr) line(sport, dport int) string {
	switch h.Kind {
	case "":
		return ""
	case "UNKNOWN":
		return "PROXY UNKNOWN\r\n"
	}
	dst := "10.9.0.1"
	if h.Kind == "TCP6" {
		dst = "2001:db8:9::1"
	}
	return fmt.Sprintf("PROXY %s %s %s %d %d\r\n", h.Kind, h.Src, dst, sport, dport)
}

// c12GenHdr decides how a connection of the client whose address the rules are to judge (peer) presents itself on
// a listener with pxyproto=true: mostly with a PROXY v1 header that names peer - the socket then belongs to a
// load balancer, whose own address the rules mostly judge the other way -, else with "PROXY UNKNOWN" or with no
// header at all: then the socket address is the peer. Returns the header, the socket address and the address the
// reference judges.
func c12GenHdr(g *simcore.Tape, rt *c12Route, peer netip.Addr) (hdr c12PxyHdr, sock, judged netip.Addr) {
	switch simcore.Pick(g, []string{"addr", "addr", "none", "addr", "unknown", "addr", "addr"}) {
	case "none":
		return c12PxyHdr{}, peer, peer
	case "unknown":
		return c12PxyHdr{Kind: "UNKNOWN"}, peer, peer
	}
	src := peer.WithZone("") // a header cannot carry a zone
	switch {
	case g.Chance(20):
		sock = c12Addr(g, rt)
	case rt.ref.rejects(src):
		sock = c12Admitted(g, rt)
	default:
		sock = c12Refused(g, rt)
	}
	fam := "TCP4"
	if !src.Is4() {
		fam = "TCP6"
	}
	return c12PxyHdr{Kind: fam, Src: src.String()}, sock, src
}

func c12HostPort(a netip.Addr, port int) string {
	return net.JoinHostPort(a.String(), fmt.Sprint(port))
}

var c12XFFNames = []string{"X-Forwarded-For", "x-forwarded-for", "X-FORWARDED-FOR"}
var c12Seps = []string{", ", ",", " , ", ",\t"}

// c12Hist is the ordered history of credential attempts the generator has presented
// to one scheme instance (one instance per scheme name and run, shared by all routes
// and connections). Attempts are derived from it so that whatever the auth layer
// remembers between requests is exercised: a pair that has logged in before comes
// back re-split, extended, truncated, re-cased, padded, crossed with another entry,
// without a header at all, at the other scheme, and verbatim; variants also come
// before any login and valid pairs again after refused ones. The requests of one
// client are strictly ordered in time (a client waits for each response); the order
// between clients is the driver's.
type c12Hist struct {
	scheme string
	logins []c12Login // valid pairs presented so far, in generation order
	tried  []string   // every Authorization value presented so far
	// past: pairs that some earlier version of the scheme's htpasswd file admitted and the present state of the
	// path does not (entry removed, password changed, file gone); kept up to date by c12GenState.change
	past []c12Pair
}

type c12Login struct {
	c12Pair
	client int
}

var c12AttemptFresh = []string{"valid", "valid", "valid", "resplit", "near", "cross", "other-scheme", "wrong", "none", "malformed", "lower-case-basic", "repeat"}
var c12AttemptAfter = []string{"valid", "resplit", "near", "cross", "resplit", "near", "valid", "other-scheme", "wrong", "none", "malformed", "lower-case-basic", "repeat", "cross"}

func c12Upper1(s string) string {
	if s == "" {
		return s
	}
	return strings.ToUpper(s[:1]) + s[1:]
}

func c12Chop(s string) string {
	if s == "" {
		return s
	}
	return s[:len(s)-1]
}

// c12Resplit moves the boundary between user name and password: same concatenation,
// another pair.
func c12Resplit(g *simcore.Tape, b c12Pair) c12Pair {
	s := b.User + b.Pw
	k := len(b.User)
	if g.Bool() {
		k = g.Range(0, len(s)-1) // any other position, both ends included
		if k >= len(b.User) {
			k++
		}
	} else {
		k += simcore.Pick(g, []int{1, -1, 2, -2, 3})
	}
	if k < 0 {
		k = 0
	}
	if k > len(s) {
		k = len(s)
	}
	return c12Pair{s[:k], s[k:]}
}

func c12Near(g *simcore.Tape, b c12Pair) c12Pair {
	u, p := b.User, b.Pw
	switch g.Intn(18) {
	case 0:
		return c12Pair{u, p + "1"}
	case 1:
		return c12Pair{u, c12Chop(p)}
	case 2:
		return c12Pair{u + " ", p}
	case 3:
		return c12Pair{" " + u, p}
	case 4:
		return c12Pair{strings.ToUpper(u), p}
	case 5:
		return c12Pair{c12Upper1(u), p}
	case 6:
		return c12Pair{u, strings.ToUpper(p)}
	case 7:
		return c12Pair{u, "x" + p}
	case 8:
		return c12Pair{u, p + " "}
	case 9:
		return c12Pair{c12Chop(u), p}
	case 10:
		return c12Pair{u + "x", p}
	case 11:
		return c12Pair{u, ""}
	case 12:
		return c12Pair{"", p}
	case 13:
		return c12Pair{p, u}
	case 14:
		return c12Pair{u, p + p}
	case 15:
		return c12Pair{u, u}
	case 16:
		return c12Pair{u + "\t", p}
	default:
		return c12Pair{u, " " + p}
	}
}

// c12AttemptLater: after a change of the file what matters is what the file says now and what it used to say.
var c12AttemptLater = []string{"valid", "stale", "stale", "valid", "stale", "repeat", "near", "cross", "none", "stale", "wrong", "resplit", "other-scheme", "valid"}

// next produces the Authorization header of the next request that client sends to a
// route naming the scheme; record says whether the scheme instance exists (attempts at
// routes with an undefined or no scheme name reach no instance and leave no history).
// own / otherOwn are the pairs the htpasswd files of the scheme and of the other scheme
// admit when the request is generated; later: the file has changed at least once.
func (h *c12Hist) next(g *simcore.Tape, other *c12Hist, client int, record bool, own, otherOwn []c12Pair, later bool) (hdr []h2Header, attempt string, ordered bool) {
	b64 := func(s string) string { return base64.StdEncoding.EncodeToString([]byte(s)) }
	// where "a valid pair" comes from when the file admits nobody at the moment: what it used to admit
	orPast := func(hh *c12Hist, now []c12Pair) []c12Pair {
		switch {
		case len(now) > 0:
			return now
		case len(hh.past) > 0:
			return hh.past
		}
		return c12Valid[hh.scheme]
	}
	ownNow := own
	own, otherOwn = orPast(h, own), orPast(other, otherOwn)
	// the pair a variant is derived from: preferably one that has logged in before
	after := false
	base := func(hh *c12Hist, now []c12Pair) c12Pair {
		if len(hh.logins) > 0 && !g.Chance(20) {
			l := simcore.Pick(g, hh.logins)
			after = true
			ordered = ordered || l.client == client
			return l.c12Pair
		}
		return simcore.Pick(g, now)
	}
	kinds := c12AttemptFresh
	if len(h.logins) > 0 {
		kinds = c12AttemptAfter
	}
	if later {
		kinds = c12AttemptLater
	}
	kind := simcore.Pick(g, kinds)
	if kind == "stale" && len(h.past) == 0 {
		kind = "valid"
	}
	var v string
	pair := func(p c12Pair) string { return "Basic " + b64(p.User+":"+p.Pw) }
	switch kind {
	case "valid":
		v = pair(simcore.Pick(g, own))
	case "stale":
		// what the file used to admit; preferably a pair that has logged in while it did
		var cand []c12Login
		for _, l := range h.logins {
			if c12HasPair(h.past, l.c12Pair) {
				cand = append(cand, l)
			}
		}
		if len(cand) > 0 && !g.Chance(30) {
			l := simcore.Pick(g, cand)
			after = true
			ordered = ordered || l.client == client
			v = pair(l.c12Pair)
		} else {
			v = pair(simcore.Pick(g, h.past))
		}
	case "resplit":
		v = pair(c12Resplit(g, base(h, own)))
	case "near":
		v = pair(c12Near(g, base(h, own)))
	case "cross":
		// a valid user with another entry's password, or another entry's user with a valid password
		b := base(h, own)
		o := simcore.Pick(g, own)
		if o.User == b.User {
			o = simcore.Pick(g, otherOwn)
		}
		if g.Bool() {
			v = pair(c12Pair{o.User, b.Pw})
		} else {
			v = pair(c12Pair{b.User, o.Pw})
		}
	case "other-scheme":
		v = pair(base(other, otherOwn))
	case "wrong":
		v = "Basic " + b64(simcore.Pick(g, []string{"alice:wrong", "bob:Builder", "carol:s3cret", "erin:pw", "dave:hunter22", "mallory:wonderland", "Alice:wonderland", ":wonderland", "alice :wonderland", "alice:", "alice", "erin:", "alice:other-pw", "alice:wonderland"}))
	case "none":
	case "malformed":
		v = simcore.Pick(g, []string{"Basic !!!", "Basic", "Bearer abc.def.ghi", "Digest username=\"alice\"", "Basic  ", "Basic Og=="})
	case "lower-case-basic":
		v = simcore.Pick(g, []string{"basic ", "BASIC "}) + b64(func() string { p := simcore.Pick(g, own); return p.User + ":" + p.Pw }())
	case "repeat":
		if len(h.tried) > 0 {
			v = simcore.Pick(g, h.tried)
			after = len(h.logins) > 0
		} else {
			v = pair(simcore.Pick(g, own))
		}
	}
	attempt = kind
	if after {
		attempt += " of a pair that logged in before"
		if ordered {
			attempt += " on this client"
		}
	}
	if kind == "none" {
		return nil, attempt, ordered
	}
	if record {
		h.tried = append(h.tried, v)
		if u, p, ok := c12BasicCreds(v); ok && c12HasPair(ownNow, c12Pair{u, p}) {
			h.logins = append(h.logins, c12Login{c12Pair{u, p}, client})
		}
	}
	return []h2Header{{simcore.Pick(g, []string{"Authorization", "authorization"}), v}}, attempt, ordered
}

// c12GenState is what the generator carries from one HTTP client to the next.
type c12GenState struct {
	sc         *c12Scenario
	id         int // next request id
	httpRoutes []int
	hist       map[string]*c12Hist
	cur        map[string]*c12File   // defined scheme -> present state of its htpasswd path
	vers       map[string][]*c12File // defined scheme -> every version written so far (vers[s][v].Ver == v)
	// cands: the states a request may be judged by that is sent before the refresh interval has passed since
	// the last change: the state at the end of the previous epoch and every state since, the present one last
	cands map[string][]*c12File
	epoch int
	hdr   c12PxyHdr // the PROXY header of the connections of the client whose requests are being generated
}

// refreshing lists the schemes that have a refresh interval, in a fixed order.
func (sc *c12Scenario) refreshing() []string {
	var out []string
	for _, s := range []string{"basic1", "basic2"} {
		if sc.Refresh[s] > 0 {
			out = append(out, s)
		}
	}
	return out
}

// authVerdict: the reference verdict on the credentials of a request to a route naming scheme.
func (gs *c12GenState) authVerdict(scheme string, authz []string, window bool) (verdict, why string) {
	states := []*c12File{gs.cur[scheme]}
	if window && len(gs.cands[scheme]) > 0 {
		states = gs.cands[scheme]
	}
	for i, st := range states {
		v, w := c12Auth(scheme, st.pairs(), authz)
		switch {
		case i == 0:
			verdict, why = v, w
		case v != verdict:
			// between a change and the end of the refresh interval either content may govern
			verdict, why = c12Either, ""
		}
	}
	if verdict == c12Reject && why == "credentials" && len(authz) > 0 {
		if u, p, ok := c12BasicCreds(authz[0]); ok && c12HasPair(gs.hist[scheme].past, c12Pair{u, p}) {
			why = "credentials-no-longer-in-the-file"
		}
	}
	return verdict, why
}

// request generates request k of n of client c (cl) to route ri and its reference verdict.
func (gs *c12GenState) request(g *simcore.Tape, cl *h2Client, c int, peer netip.Addr, ri int, session, last, window bool) {
	sc := gs.sc
	rt := &sc.Routes[ri]
	rq := h2Req{ID: fmt.Sprintf("r%d", gs.id), Route: ri, Method: simcore.Pick(g, []string{"GET", "GET", "POST", "HEAD", "DELETE"}), Path: rt.Src + simcore.Pick(g, []string{"", "/", "/a/b"}), Host: "fabio.sim"}
	gs.id++
	rq.Headers = []h2Header{{"Accept-Encoding", "identity"}}
	// X-Forwarded-For: 0-2 header lines of 1-3 elements (a session mostly sends none)
	var lines []string
	nl := simcore.Pick(g, []int{0, 1, 2, 1, 2, 0})
	if session && g.Chance(75) {
		nl = 0
	}
	for l := 0; l < nl; l++ {
		var els []string
		for x, nx := 0, g.Range(1, 3); x < nx; x++ {
			switch v := g.Intn(20); {
			case v < 13:
				els = append(els, c12Admitted(g, rt).String())
			case v < 16:
				els = append(els, c12Addr(g, rt).String())
			case v < 17:
				els = append(els, peer.WithZone("").String())
			default:
				els = append(els, simcore.Pick(g, c12Garbage))
			}
		}
		line := strings.Join(els, simcore.Pick(g, c12Seps))
		lines = append(lines, line)
		rq.Headers = append(rq.Headers, h2Header{simcore.Pick(g, c12XFFNames), line})
	}
	// credentials come from the history of the scheme the route names (routes with an
	// undefined or no name present basic1's attempts, which reach no scheme instance)
	own, other := gs.hist["basic1"], gs.hist["basic2"]
	_, defined := c12Valid[rt.Auth]
	if rt.Auth == "basic2" {
		own, other = other, own
	}
	authz, attempt, ordered := own.next(g, other, c, defined, gs.cur[own.scheme].pairs(), gs.cur[other.scheme].pairs(), gs.epoch > 0 && sc.Refresh[own.scheme] > 0)
	rq.Headers = append(rq.Headers, authz...)
	// a websocket upgrade request: the access decision comes before the choice of the handler
	// (not while the clock moves under a client: the websocket handler gives the upstream 1 s for its answer)
	ws := g.Chance(12) && !window
	if ws {
		rq.Method = "GET"
		rq.Headers = append(rq.Headers, h2Header{"Upgrade", simcore.Pick(g, []string{"websocket", "Websocket"})}, h2Header{"Connection", "Upgrade"},
			h2Header{"Sec-WebSocket-Key", "dGhlIHNhbXBsZSBub25jZQ=="}, h2Header{"Sec-WebSocket-Version", "13"})
	}
	if session && !last && rq.Method != "POST" && !ws && g.Chance(20) {
		// the next attempt of the session arrives on a new connection (asked for on requests
		// without a body only: when a refused upload also asks to close, net/http closes with
		// the body unread and the reset may overtake the answer, which is TCP and not the gate)
		rq.Headers = append(rq.Headers, h2Header{"Connection", "close"})
	}
	if rq.Method == "POST" {
		rq.Body = g.Bytes(g.Range(0, 3000))
		rq.Chunked = len(rq.Body) > 0 && g.Chance(30)
	}
	rq.BodyLen = len(rq.Body)
	rq.Chunks = c07GenChunks(g, len(rq.Body)+100)
	rq.Resp = h2Resp{Status: simcore.Pick(g, []int{200, 204, 404, 500})}
	if sc.Tasked && rq.Method == "HEAD" && rq.Resp.Status == 204 {
		// the only reply here whose length net/http does not know (a reply to HEAD without Content-Length):
		// ReverseProxy flushes such a reply from a timer goroutine that races the handler, and with the
		// handler parked at its next statement the outcome of that race would reach the schedule
		rq.Resp.Status = 200
	}
	if !h2NoBody(rq.Method, rq.Resp.Status) {
		rq.Resp.Body = g.Bytes(g.Range(0, 500))
	}
	if ws {
		rq.Resp = h2Resp{Status: 101} // the upstream accepts the upgrade, then bytes flow both ways (c12HTTPUpstream)
	}
	rq.Resp.BodyLen = len(rq.Resp.Body)
	cl.Reqs = append(cl.Reqs, rq)

	var av []string
	for _, h := range authz {
		av = append(av, h.V)
	}
	v1, w1 := rt.ref.access(peer, lines)
	v2, w2 := gs.authVerdict(rt.Auth, av, window)
	v, w := c12Combine(v1, w1, v2, w2)
	ex := c12Expect{ID: rq.ID, Verdict: v, Why: w, route: ri, proto: "http", epoch: gs.epoch, window: window, ws: ws, hdr: gs.hdr.Kind}
	if gs.hdr.Kind == "UNKNOWN" {
		ex.closedOK = true
		if ex.Verdict == c12Admit {
			ex.Verdict = c12Either // no demand that a connection without client address be served
		}
	}
	if rt.Auth != "" {
		ex.Attempt = attempt
		ex.authVerdict, ex.ordered = v2, ordered && defined
	}
	sc.Expect = append(sc.Expect, ex)
}

// laterClient generates a client of an epoch after a change: 1-4 requests from an address the rules do not
// refuse, mostly to a route whose scheme reloads its file.
func (gs *c12GenState) laterClient(g *simcore.Tape, window bool) int {
	sc := gs.sc
	var reloading []int
	for _, ri := range gs.httpRoutes {
		if sc.Refresh[sc.Routes[ri].Auth] > 0 {
			reloading = append(reloading, ri)
		}
	}
	focus := simcore.Pick(g, reloading)
	c := len(sc.Clients)
	peer := c12Admitted(g, &sc.Routes[focus])
	sock := peer
	gs.hdr = c12PxyHdr{}
	if sc.HTTPPxy && !window {
		// (the clock moves while a window client is at work: its header could arrive after the listener's pxytimeout,
		// which turns the header into the first bytes of the stream; such a client sends no header)
		gs.hdr, sock, peer = c12GenHdr(g, &sc.Routes[focus], peer)
	}
	sc.ClientHdr = append(sc.ClientHdr, gs.hdr)
	cl := h2Client{Addr: c12HostPort(sock, 5000+100*c)}
	n := g.Range(1, 4)
	for k := 0; k < n; k++ {
		ri := focus
		if g.Chance(15) {
			ri = simcore.Pick(g, gs.httpRoutes)
		}
		gs.request(g, &cl, c, peer, ri, true, k == n-1, window)
	}
	sc.Clients = append(sc.Clients, cl)
	return c
}

var c12NewUsers = []c12Pair{{"frank", "f0rt"}, {"grace", "hopper"}, {"alicia", "wonderland"}, {"Alice", "wonderland"}, {"bob2", "builder"}, {"al", "icewonderland"}, {"erin", "wonderland"}, {"dave", "pw2"}}
var c12JunkLines = []string{"garbage", "", "   ", "alice", "alicewonderland", "# managed by ops", "\x00\x01\x02 binary", "bob {SHA}fEqNCco3Yq9h5ZUglD3CZJT4lBs=", "\t"}

// edit derives the entries of a new version from es.
func (gs *c12GenState) edit(g *simcore.Tape, es []c12Entry, how string) []c12Entry {
	out := append([]c12Entry(nil), es...)
	switch {
	case how == "drop-entry" && len(out) > 0:
		i := g.Intn(len(out))
		out = append(out[:i], out[i+1:]...)
	case how == "change-password" && len(out) > 0:
		i := g.Intn(len(out))
		e := out[i]
		switch g.Intn(4) {
		case 0:
			e.Pw += "2"
		case 1:
			e.Pw = simcore.Pick(g, out).Pw // the password of another entry of the file (or its own: then only the encoding changes)
		case 2:
			e.Pw = "changed-" + e.User
		default:
			e.Pw = c12Chop(e.Pw) + "X"
		}
		e.Enc = simcore.Pick(g, []string{"plain", "sha", "bcrypt"})
		out[i] = e
	case how == "add-entry":
		var free []c12Pair
		for _, u := range c12NewUsers {
			taken := false
			for _, e := range out {
				taken = taken || e.User == u.User
			}
			if !taken {
				free = append(free, u)
			}
		}
		if len(free) > 0 {
			u := simcore.Pick(g, free)
			out = append(out, c12Entry{u.User, u.Pw, simcore.Pick(g, []string{"plain", "sha", "bcrypt"})})
		}
	}
	return out
}

var c12ChangePresent = []string{"remove", "change-password", "drop-entry", "remove", "add-entry", "rewrite-unchanged", "directory", "dangling-symlink", "no-entries", "earlier-version", "lines-that-are-no-entries", "change-password", "remove"}
var c12ChangeAbsent = []string{"restore-as-it-was", "restore-rewritten", "restore-as-it-was", "restore-edited", "restore-earlier-version", "directory", "remove", "dangling-symlink", "restore-as-it-was", "restore-rewritten"}

// change draws the next state of the htpasswd path of scheme s.
func (gs *c12GenState) change(g *simcore.Tape, s string) c12Change {
	cur := gs.cur[s]
	var good []*c12File // the regular-file versions so far
	for _, f := range gs.vers[s] {
		if f.Kind == "entries" {
			good = append(good, f)
		}
	}
	lastGood := good[len(good)-1]
	version := func(kind string, es []c12Entry) *c12File {
		f := &c12File{Kind: kind, Entries: es, Ver: len(gs.vers[s]), OldMTime: g.Chance(15)}
		gs.vers[s] = append(gs.vers[s], f)
		return f
	}
	var what string
	if cur.Kind == "entries" {
		what = simcore.Pick(g, c12ChangePresent)
	} else {
		what = simcore.Pick(g, c12ChangeAbsent)
	}
	var nf *c12File
	switch what {
	case "remove":
		nf = &c12File{Kind: "removed", Ver: cur.Ver}
	case "dangling-symlink":
		nf = &c12File{Kind: "dangling-symlink", Ver: cur.Ver}
	case "directory":
		nf = version("directory", nil)
	case "change-password", "drop-entry", "add-entry":
		nf = version("entries", gs.edit(g, cur.Entries, what))
	case "rewrite-unchanged":
		nf = version("entries", cur.Entries)
	case "no-entries":
		nf = version("entries", nil)
		for i, n := 0, g.Range(0, 3); i < n; i++ {
			nf.Junk = append(nf.Junk, c12Junk{0, simcore.Pick(g, c12JunkLines)})
		}
	case "lines-that-are-no-entries":
		// same entries, rotated, with lines in between that have no colon
		es := append([]c12Entry(nil), cur.Entries...)
		if len(es) > 1 {
			k := g.Intn(len(es))
			es = append(es[k:], es[:k]...)
		}
		nf = version("entries", es)
		for i, n := 0, g.Range(1, 3); i < n; i++ {
			nf.Junk = append(nf.Junk, c12Junk{g.Range(0, len(es)), simcore.Pick(g, c12JunkLines)})
		}
		nf.NoEOL = g.Bool()
	case "earlier-version", "restore-earlier-version":
		// an earlier version put in place as it was (content and modification time)
		nf = simcore.Pick(g, good)
		if nf == cur {
			what += " (the present one: no change)"
		}
	case "restore-as-it-was":
		// the last regular file comes back with the modification time it had (moved away and back)
		nf = lastGood
	case "restore-rewritten":
		nf = version("entries", lastGood.Entries)
	case "restore-edited":
		nf = version("entries", gs.edit(g, lastGood.Entries, simcore.Pick(g, []string{"change-password", "drop-entry", "add-entry"})))
	}
	gs.cur[s] = nf
	gs.cands[s] = append(gs.cands[s], nf)
	// what the path used to admit and does not admit now
	h := gs.hist[s]
	h.past = nil
	now := nf.pairs()
	for _, f := range gs.vers[s] {
		for _, p := range f.pairs() {
			if !c12HasPair(now, p) && !c12HasPair(h.past, p) {
				h.past = append(h.past, p)
			}
		}
	}
	return c12Change{Scheme: s, What: what, File: *nf}
}

func c12Gen(g *simcore.Tape, thorough bool) *c12Scenario {
	sc := &c12Scenario{}
	mode := g.Intn(3) // http, tcp, both
	maxCl := 3
	if thorough {
		maxCl = 5
	}
	// htpasswd reload: two of five runs with HTTP routes
	reload := g.Chance(40) && mode != 1
	// statement-level runs: the handlers of several peers interleave inside fabio's decision code
	if sc.Tasked = g.Chance(30); sc.Tasked {
		sc.Focus = simcore.Pick(g, []string{"decision", "all"})
		sc.Stick = simcore.Pick(g, []int{1, 3, 8})
	}
	// inbound PROXY protocol: in a third of the runs listeners are configured with pxyproto=true
	pxyRun := g.Chance(35)
	if pxyRun && mode != 1 && g.Chance(75) {
		sc.HTTPPxy, sc.HTTPPxyTimeoutMs = true, simcore.Pick(g, c12PxyTimeouts)
	}
	var httpRoutes, tcpRoutes []int
	if mode != 1 {
		n := g.Range(1, 3)
		for j := 0; j < n; j++ {
			rt := c12Route{Proto: "http", Src: fmt.Sprintf("/p%d", j), Key: fmt.Sprintf("up%d.sim:80", j)}
			c12GenRules(g, &rt, sc.Routes)
			if g.Chance(20) {
				rt.More = []string{fmt.Sprintf("up%db.sim:80", j)}
			}
			rt.Auth = simcore.Pick(g, []string{"", "", "basic1", "basic2", "nosuch", "basic1", "", "Basic1"})
			if reload && j == 0 {
				// the first route names the scheme whose file will change
				rt.Auth = simcore.Pick(g, []string{"basic1", "basic2"})
				sc.Refresh = map[string]int{rt.Auth: simcore.Pick(g, []int{1, 2, 5})}
				if o := map[string]string{"basic1": "basic2", "basic2": "basic1"}[rt.Auth]; g.Chance(30) {
					sc.Refresh[o] = simcore.Pick(g, []int{1, 3})
				}
			}
			httpRoutes = append(httpRoutes, len(sc.Routes))
			sc.Routes = append(sc.Routes, rt)
		}
	}
	if mode != 0 {
		n := g.Range(1, 3)
		for j := 0; j < n; j++ {
			rt := c12Route{Proto: simcore.Pick(g, []string{"tcp", "sni", "dyn"}), Key: fmt.Sprintf("tup%d.sim:9000", j), Listen: fmt.Sprintf("fabio.sim:%d", 7000+j)}
			rt.Src = fmt.Sprintf(":%d", 7000+j)
			if rt.Proto == "sni" {
				rt.Src = fmt.Sprintf("sni%d.example.com/", j)
			}
			c12GenRules(g, &rt, sc.Routes)
			if g.Chance(20) {
				rt.More = []string{fmt.Sprintf("tup%db.sim:9000", j)}
			}
			if pxyRun && g.Chance(75) {
				rt.Pxy, rt.PxyTimeoutMs = true, simcore.Pick(g, c12PxyTimeouts)
			}
			tcpRoutes = append(tcpRoutes, len(sc.Routes))
			sc.Routes = append(sc.Routes, rt)
		}
	}
	sc.Epochs = []c12Epoch{{}}
	gs := &c12GenState{sc: sc, httpRoutes: httpRoutes,
		hist: map[string]*c12Hist{"basic1": {scheme: "basic1"}, "basic2": {scheme: "basic2"}},
		cur:  map[string]*c12File{}, vers: map[string][]*c12File{}, cands: map[string][]*c12File{}}
	for _, s := range []string{"basic1", "basic2"} {
		f := &c12File{Kind: "entries", Entries: c12Initial[s]}
		gs.cur[s], gs.vers[s], gs.cands[s] = f, []*c12File{f}, []*c12File{f}
	}
	if len(httpRoutes) > 0 {
		maxSess := 6
		if thorough {
			maxSess = 10
		}
		nc := g.Range(1, maxCl)
		hot := -1
		if sc.Tasked {
			// several clients, alternately from addresses the rules admit and refuse, at work on one route
			nc = g.Range(2, maxCl+1)
			hot = c12Hot(g, sc, httpRoutes)
		}
		for c := 0; c < nc; c++ {
			focus := simcore.Pick(g, httpRoutes)
			if hot >= 0 && !g.Chance(15) {
				focus = hot
			}
			// a credential session: a longer ordered history of attempts at the focus route's scheme
			// instance from an address the rules do not refuse, on one or several connections
			session := false
			if _, defined := c12Valid[sc.Routes[focus].Auth]; defined {
				session = g.Chance(60)
			}
			var peer netip.Addr
			switch {
			case hot >= 0 && !session && c%2 == 1:
				peer = c12Refused(g, &sc.Routes[focus])
			case session || g.Chance(70):
				peer = c12Admitted(g, &sc.Routes[focus])
			default:
				peer = c12Addr(g, &sc.Routes[focus])
			}
			sock := peer
			gs.hdr = c12PxyHdr{}
			if sc.HTTPPxy {
				gs.hdr, sock, peer = c12GenHdr(g, &sc.Routes[focus], peer)
			}
			sc.ClientHdr = append(sc.ClientHdr, gs.hdr)
			cl := h2Client{Addr: c12HostPort(sock, 5000+100*c)}
			n := g.Range(1, 3)
			if hot >= 0 {
				n = g.Range(2, 4) // what one peer's check leaves behind meets the next request of the other
			}
			if session {
				n = g.Range(2, maxSess)
			}
			for k := 0; k < n; k++ {
				ri := focus
				if g.Chance(25) && (hot < 0 || g.Chance(40)) {
					ri = simcore.Pick(g, httpRoutes)
				}
				gs.request(g, &cl, c, peer, ri, session, k == n-1, false)
			}
			sc.Epochs[0].Clients = append(sc.Epochs[0].Clients, len(sc.Clients))
			sc.Clients = append(sc.Clients, cl)
		}
	}
	if len(tcpRoutes) > 0 {
		nc := g.Range(1, maxCl+1)
		hot := -1
		if sc.Tasked {
			nc = g.Range(2, maxCl+3)
			hot = c12Hot(g, sc, tcpRoutes)
		}
		var peers []netip.Addr
		for c := 0; c < nc; c++ {
			ri := simcore.Pick(g, tcpRoutes)
			if hot >= 0 && !g.Chance(15) {
				ri = hot
			}
			rt := &sc.Routes[ri]
			var peer netip.Addr
			again := 25
			if hot >= 0 {
				again = 45
			}
			switch {
			case c > 0 && g.Chance(again):
				// a peer that has connected before connects again (from another port)
				k := g.Intn(c)
				peer, ri = peers[k], sc.Conns[k].Route
				rt = &sc.Routes[ri]
			case hot >= 0 && c%2 == 1:
				peer = c12Refused(g, rt)
			case g.Chance(50):
				peer = c12Admitted(g, rt)
			default:
				peer = c12Addr(g, rt)
			}
			cn := c12Conn{ID: fmt.Sprintf("t%d", c), Route: ri, Early: g.Chance(10)}
			sock := peer
			if rt.Pxy && !cn.Early { // (a connection that closes at once sends no header either)
				cn.Hdr, sock, peer = c12GenHdr(g, rt, peer)
			}
			peers = append(peers, peer)
			cn.Addr = c12HostPort(sock, 6000+100*c)
			cn.Chunks = c07GenChunks(g, 300)
			sc.Conns = append(sc.Conns, cn)
			v, w := rt.ref.access(peer, nil)
			if cn.Hdr.Kind == "UNKNOWN" && v == c12Admit {
				v = c12Either // no demand that a connection without client address be served
			}
			sc.Expect = append(sc.Expect, c12Expect{ID: cn.ID, Verdict: v, Why: w, route: ri, proto: rt.Proto, hdr: cn.Hdr.Kind})
		}
	}
	// the life of the htpasswd files: 1-4 (thorough 1-6) epochs, each opened by one change (1 in 5: two, less than one
	// refresh interval apart) of the file of a scheme that has a refresh interval
	if reload {
		maxEp := 4
		if thorough {
			maxEp = 6
		}
		schemes := sc.refreshing()
		for k, n := 1, g.Range(1, maxEp); k <= n; k++ {
			gs.epoch = k
			ep := c12Epoch{}
			nch := 1
			if g.Chance(20) {
				nch = 2
			}
			for j := 0; j < nch; j++ {
				s := schemes[0]
				if len(schemes) > 1 && g.Chance(35) {
					s = schemes[1]
				}
				ch := gs.change(g, s)
				if j < nch-1 {
					ch.GapMs = g.Range(0, sc.Refresh[s]*1000-1)
				}
				ep.Changes = append(ep.Changes, ch)
			}
			if g.Chance(25) {
				ep.Window = append(ep.Window, gs.laterClient(g, true))
				ep.Pre = simcore.Pick(g, []int{0, 3, 15, 50, 150})
			}
			// from here on the refresh interval has passed: only the present state counts
			for _, s := range schemes {
				gs.cands[s] = []*c12File{gs.cur[s]}
			}
			for c, nc := 0, simcore.Pick(g, []int{1, 0, 2, 1}); c < nc; c++ {
				ep.Clients = append(ep.Clients, gs.laterClient(g, false))
			}
			sc.Epochs = append(sc.Epochs, ep)
		}
	}
	// the life of the routing table. The table that serves has been built from the same text once
	// before in the simplest case (fabio rebuilds it after every registry change; scenarios are
	// shrunk in a process that has already built them, so the shrunk scenario keeps a rebuild of
	// its own), is the first one ever built, or the third.
	sc.Builds = simcore.Pick(g, []int{2, 1, 3})
	for k, n := 0, g.Intn(3); k < n; k++ {
		rb := c12Rebuild{After: g.Range(0, len(sc.Expect)), Add: -1}
		if g.Chance(40) {
			rb.Add = g.Intn(len(sc.Routes))
			if sc.Routes[rb.Add].Proto == "http" {
				rb.Key = fmt.Sprintf("up%dr%d.sim:80", rb.Add, k)
			} else {
				rb.Key = fmt.Sprintf("tup%dr%d.sim:9000", rb.Add, k)
			}
		}
		sc.Rebuilds = append(sc.Rebuilds, rb)
	}
	return sc
}

// c12Hot picks the route the clients of a statement-level run meet on: one with rules if there is one.
func c12Hot(g *simcore.Tape, sc *c12Scenario, idx []int) int {
	var ruled []int
	for _, i := range idx {
		if sc.Routes[i].ref.any() {
			ruled = append(ruled, i)
		}
	}
	if len(ruled) > 0 {
		return simcore.Pick(g, ruled)
	}
	return simcore.Pick(g, idx)
}

// multi: some route has more than one instance in some version of the table.
func (sc *c12Scenario) multi() bool {
	for j := range sc.Routes {
		if len(sc.keys(j)) > 1 {
			return true
		}
	}
	return false
}

// c12Table writes the route commands of table version v: every instance of a service
// carries the service's options.
func c12Table(sc *c12Scenario, v int) string {
	var b strings.Builder
	for j, rt := range sc.Routes {
		var opts []string
		if len(rt.Allow) > 0 {
			opts = append(opts, "allow="+strings.Join(rt.Allow, ","))
		}
		if len(rt.Deny) > 0 {
			opts = append(opts, "deny="+strings.Join(rt.Deny, ","))
		}
		if rt.Auth != "" {
			opts = append(opts, "auth="+rt.Auth)
		}
		for _, key := range sc.keysAt(j, v) {
			dst := "http://" + key + "/"
			if rt.Proto != "http" {
				dst = "tcp://" + key
			}
			fmt.Fprintf(&b, "route add svc%d %s %s", j, rt.Src, dst)
			if len(opts) > 0 {
				fmt.Fprintf(&b, " opts \"%s\"", strings.Join(opts, " "))
			}
			b.WriteString("\n")
		}
	}
	return b.String()
}

// c12Install builds a table from the route commands and makes it the active one.
func c12Install(r *simcore.Run, text string) bool {
	t, err := route.NewTable(bytes.NewBufferString(text))
	if err != nil {
		r.Trouble("scenario table does not parse: %v\n%s", err, text)
		return false
	}
	route.SetTable(t)
	return true
}

// ---------------------------------------------------------------- environment

type c12Dial struct {
	Key      string
	Inflight []string
}

type c12TCPResult struct {
	DialErr error
	Got     string
	Closed  bool
	Done    bool
}

type c12State struct {
	mu       sync.Mutex
	entered  int // requests and connections that have reached a handler
	inflight map[string]int
	dials    []c12Dial
	byAddr   map[string]string // socket address of a tcp client -> its id
	tcp      map[string]*c12TCPResult
}

// On a pxyproto listener the harness must not ask an accepted connection for its RemoteAddr (that would read the
// PROXY header before fabio does) and tcp.Server hands its handler a wrapper of its own. So the socket, below the
// PROXY layer, carries the id of its client in its local address, which every layer above passes through
// unchanged; tcp.Server is given the genuine *proxyproto.Conn.
type c12SockLn struct {
	net.Listener
	st *c12State
}

type c12TaggedAddr struct {
	net.Addr
	id string
}

type c12TaggedConn struct {
	net.Conn
	id string
}

func (c *c12TaggedConn) LocalAddr() net.Addr { return c12TaggedAddr{c.Conn.LocalAddr(), c.id} }

func (l *c12SockLn) Accept() (net.Conn, error) {
	c, err := l.Listener.Accept()
	if err != nil {
		return c, err
	}
	l.st.mu.Lock()
	id := l.st.byAddr[c.RemoteAddr().String()]
	l.st.mu.Unlock()
	return &c12TaggedConn{c, id}, nil
}

func (st *c12State) enter(id string) {
	st.mu.Lock()
	st.entered++
	st.inflight[id]++
	st.mu.Unlock()
}

func (st *c12State) leave(id string) {
	st.mu.Lock()
	if st.inflight[id]--; st.inflight[id] <= 0 {
		delete(st.inflight, id)
	}
	st.mu.Unlock()
}

var c12HelloMu sync.Mutex
var c12Hellos = map[string][]byte{}

// c12ClientHello returns the first TLS record a crypto/tls client sends for name.
func c12ClientHello(name string) []byte {
	c12HelloMu.Lock()
	defer c12HelloMu.Unlock()
	if h := c12Hellos[name]; h != nil {
		return h
	}
	c1, c2 := net.Pipe()
	done := make(chan struct{})
	go func() {
		defer close(done)
		tls.Client(c1, &tls.Config{ServerName: name, InsecureSkipVerify: true, CurvePreferences: []tls.CurveID{tls.X25519}}).Handshake()
	}()
	hdr := make([]byte, 5)
	io.ReadFull(c2, hdr)
	body := make([]byte, int(hdr[3])<<8|int(hdr[4]))
	io.ReadFull(c2, body)
	c2.Close()
	c1.Close()
	<-done
	h := append(hdr, body...)
	c12Hellos[name] = h
	return h
}

var c12BcMu sync.Mutex
var c12Bc = map[string]string{} // password -> bcrypt hash (the salt is random: never traced, only matched)

func c12Bcrypt(pw string) (string, error) {
	c12BcMu.Lock()
	defer c12BcMu.Unlock()
	if h := c12Bc[pw]; h != "" {
		return h, nil
	}
	bc, err := bcrypt.GenerateFromPassword([]byte(pw), bcrypt.MinCost)
	if err != nil {
		return "", err
	}
	c12Bc[pw] = string(bc)
	return string(bc), nil
}

// c12Render writes out the text of a regular-file version.
func c12Render(f *c12File) ([]byte, error) {
	var lines []string
	junk := func(at int) {
		for _, j := range f.Junk {
			if j.Before == at {
				lines = append(lines, j.Line)
			}
		}
	}
	for i, e := range f.Entries {
		junk(i)
		switch e.Enc {
		case "sha":
			sum := sha1.Sum([]byte(e.Pw))
			lines = append(lines, e.User+":{SHA}"+base64.StdEncoding.EncodeToString(sum[:]))
		case "apr1":
			if e.Pw != "s3cret:colon" {
				return nil, fmt.Errorf("no apr1 hash for %q", e.Pw)
			}
			lines = append(lines, e.User+":$apr1$Zx8qPm1k$VrMIn3.GpdlohepABKm1Q/")
		case "bcrypt":
			bc, err := c12Bcrypt(e.Pw)
			if err != nil {
				return nil, err
			}
			lines = append(lines, e.User+":"+bc)
		default:
			lines = append(lines, e.User+":"+e.Pw)
		}
	}
	junk(len(f.Entries))
	text := strings.Join(lines, "\n")
	if !f.NoEOL && len(lines) > 0 {
		text += "\n"
	}
	return []byte(text), nil
}

// c12Disk keeps the htpasswd paths of a run on the real disk (go-htpasswd, a dependency, opens them itself).
// Modification times are set explicitly: the simulated instant of the change, or a time in the past.
type c12Disk struct {
	dir   string
	mtime map[string]time.Time // scheme/version -> modification time the version was written with
}

func (dk *c12Disk) path(scheme string) string {
	return filepath.Join(dk.dir, map[string]string{"basic1": "a.htpasswd", "basic2": "b.htpasswd"}[scheme])
}

// put brings the path of scheme into state f.
func (dk *c12Disk) put(scheme string, f *c12File) error {
	p := dk.path(scheme)
	if err := os.RemoveAll(p); err != nil {
		return err
	}
	key := fmt.Sprintf("%s/%d", scheme, f.Ver)
	mt, known := dk.mtime[key]
	if !known {
		mt = time.Now().Add(time.Duration(f.Ver) * time.Millisecond) // the bubble clock
		if f.OldMTime {
			mt = time.Date(1990, 1, 1, 0, 0, 0, 0, time.UTC).Add(time.Duration(f.Ver) * time.Hour)
		}
		dk.mtime[key] = mt
	}
	switch f.Kind {
	case "entries":
		text, err := c12Render(f)
		if err != nil {
			return err
		}
		if err := os.WriteFile(p, text, 0o600); err != nil {
			return err
		}
		return os.Chtimes(p, mt, mt)
	case "directory":
		if err := os.Mkdir(p, 0o700); err != nil {
			return err
		}
		return os.Chtimes(p, mt, mt)
	case "dangling-symlink":
		return os.Symlink(filepath.Join(dk.dir, "nowhere"), p)
	}
	return nil // removed
}

// c12Slack: a request sent one refresh interval plus this much after a change of the file is judged by the
// new content (fabio's reload needs no simulated time; the slack only keeps the instant off the tick itself).
const c12Slack = 100 * time.Millisecond

func runC12(r *simcore.Run) {
	sc := c12Gen(r.Gen, r.Thorough())
	r.SetSample(sc)
	expect := map[string]*c12Expect{}
	for i := range sc.Expect {
		expect[sc.Expect[i].ID] = &sc.Expect[i]
	}

	// the htpasswd files live on the real disk in a temp dir. Schemes without a refresh interval read theirs once
	// (the file is removed after loading); the others have fabio's reload goroutine, which must be a task so
	// that it sleeps on the simulated clock under the driver's control and ends with the run: newHTTPProxy
	// runs inside a task and the goroutine it starts becomes a child task.
	dir, err := os.MkdirTemp("", "zzverif-c12-")
	if err != nil {
		r.Trouble("temp dir: %v", err)
		return
	}
	defer os.RemoveAll(dir)
	disk := &c12Disk{dir: dir, mtime: map[string]time.Time{}}
	for _, s := range []string{"basic1", "basic2"} {
		if err := disk.put(s, &c12File{Kind: "entries", Entries: c12Initial[s], OldMTime: true}); err != nil {
			r.Trouble("htpasswd: %v", err)
			return
		}
	}
	cfg := &config.Config{}
	cfg.Proxy.Strategy = "rnd"
	if sc.multi() {
		cfg.Proxy.Strategy = "rr" // a choice between instances must be replayable
	}
	cfg.Proxy.Matcher = "prefix"
	cfg.Proxy.NoRouteStatus = 404
	cfg.GlobCacheSize = 100
	cfg.Proxy.DialTimeout = 30 * time.Second
	e := h2NewEnv(r, cfg, c12Table(sc, 0)) // (builds a proxy without auth schemes, replaced below)
	defer e.finish()
	cfg.Proxy.AuthSchemes = map[string]config.AuthScheme{
		"basic1": {Name: "basic1", Type: "basic", Basic: config.BasicAuth{File: disk.path("basic1"), Realm: "sim one", Refresh: time.Duration(sc.Refresh["basic1"]) * time.Second}},
		"basic2": {Name: "basic2", Type: "basic", Basic: config.BasicAuth{File: disk.path("basic2"), Realm: "sim two", Refresh: time.Duration(sc.Refresh["basic2"]) * time.Second}},
	}
	{
		dp := metrics.DiscardProvider{}
		stats := &proxy.HttpStatsHandler{Noroute: dp.NewCounter("notfound"), Requests: dp.NewHistogram("requests"),
			WSConn: dp.NewGauge("ws.conn"), StatusTimer: dp.NewHistogram("http.status", "code"), RedirectCounter: dp.NewCounter("http.redirect.count", "code")}
		var px *proxy.HTTPProxy
		boot := e.d.Sim.Spawn("boot", func() { px = newHTTPProxy(cfg, stats) })
		e.d.RunTasks(10000) // the reload goroutines (boot/1, boot/2) run up to their first wait for the ticker
		if !boot.Done() || px == nil {
			r.Trouble("newHTTPProxy did not return: %v", e.d.Sim.TaskStates())
			return
		}
		e.proxy = px
	}
	if len(sc.Refresh) > 0 {
		e.d.Sim.StopBudget = 100 // the reload loops are endless: they end a few ticks after the run
		r.Probe("htpasswd_reload_run")
	}
	for _, s := range []string{"basic1", "basic2"} {
		if sc.Refresh[s] == 0 {
			os.Remove(disk.path(s)) // read once
		}
	}
	// the table text is parsed and installed Builds times before anything is served
	for i := 1; i < sc.Builds; i++ {
		if !c12Install(r, c12Table(sc, 0)) {
			return
		}
	}
	r.Probe(fmt.Sprintf("table_builds_before_serving_%d", sc.Builds))
	keyRoute := map[string]int{}
	for j := range sc.Routes {
		for _, k := range sc.keys(j) {
			keyRoute[k] = j
		}
		if len(sc.keysAt(j, 0)) > 1 {
			r.Probe("service_with_two_instances")
		}
		if sc.Routes[j].Shares > 0 {
			r.Probe("routes_sharing_an_option_string")
		}
	}

	st := &c12State{inflight: map[string]int{}, byAddr: map[string]string{}, tcp: map[string]*c12TCPResult{}}
	// every connection attempt fabio makes, with what is inside a fabio handler at that instant
	inner := e.d.Sim.Dial
	e.d.Sim.Dial = func(ctx context.Context, network, addr string, timeout, keepAlive time.Duration) (net.Conn, error) {
		st.mu.Lock()
		var fl []string
		for id := range st.inflight {
			fl = append(fl, id)
		}
		sort.Strings(fl)
		st.dials = append(st.dials, c12Dial{Key: addr, Inflight: fl})
		st.mu.Unlock()
		return inner(ctx, network, addr, timeout, keepAlive)
	}
	if sc.Tasked {
		if sc.Focus == "decision" {
			e.d.Sim.Activate("route:*Target.", "auth")
		} else {
			// everything on the way of a request or connection except the code that net/http or ReverseProxy call
			// back under their own locks, and the accept loop (the harness closes the servers from outside a task)
			e.d.Sim.Activate("route", "auth", "proxy", "-proxy:*responseWriter", "-proxy:newWSHandler", "-proxy:newHTTPProxy", "-proxy:httpProxyErrorHandler",
				"tcp", "-tcp:*Server.")
		}
		e.d.Stick = sc.Stick
		r.Probe("tasked_" + sc.Focus)
	}
	var amu sync.Mutex
	perConn := map[string]int{}
	e.wrap = func(h http.Handler) http.Handler {
		return http.HandlerFunc(func(w http.ResponseWriter, req *http.Request) {
			id := req.Header.Get("X-Sim-Id")
			if sc.Tasked {
				amu.Lock()
				perConn[req.RemoteAddr]++
				name := fmt.Sprintf("h/%s/%d", req.RemoteAddr, perConn[req.RemoteAddr])
				amu.Unlock()
				defer simhook.Adopt(name)()
			}
			st.enter(id)
			defer st.leave(id)
			h.ServeHTTP(w, req)
		})
	}
	// rebuilt tables are installed while the clients are at work; when is the driver's choice
	rebuilt := 0
	e.d.AddSource(func() []simcore.Event {
		if rebuilt >= len(sc.Rebuilds) {
			return nil
		}
		st.mu.Lock()
		n := st.entered
		st.mu.Unlock()
		if n < sc.Rebuilds[rebuilt].After {
			return nil
		}
		return []simcore.Event{{Key: "rebuild", Fire: func() {
			rebuilt++
			r.Tracef("table rebuilt (%d) after %d handler entries", rebuilt, n)
			r.Probe("table_rebuilt_while_serving")
			if sc.Rebuilds[rebuilt-1].Add >= 0 {
				r.Probe("table_rebuilt_with_one_more_instance")
			}
			c12Install(r, c12Table(sc, rebuilt))
		}}}
	})
	if sc.HTTPPxy {
		r.Probe("pxyproto_http_listener")
		c12ServePxy(e, time.Duration(sc.HTTPPxyTimeoutMs)*time.Millisecond)
	} else {
		e.serve(nil)
	}

	// upstreams and TCP listeners
	var servers []*tcp.Server
	defer func() {
		for _, s := range servers {
			s.Close()
		}
	}()
	notFound := metrics.DiscardProvider{}.NewCounter("notfound")
	for i := range sc.Routes {
		rt := &sc.Routes[i]
		if rt.Proto == "http" {
			for _, k := range sc.keys(i) {
				c12HTTPUpstream(e, k)
			}
			continue
		}
		for _, k := range sc.keys(i) {
			c12TCPUpstream(e, k)
		}
		var h tcp.Handler
		switch rt.Proto {
		case "tcp":
			h = &tcp.Proxy{DialTimeout: cfg.Proxy.DialTimeout, Lookup: lookupHostFn(cfg, notFound)}
		case "sni":
			h = &tcp.SNIProxy{DialTimeout: cfg.Proxy.DialTimeout, Lookup: lookupHostFn(cfg, notFound)}
		default:
			h = &tcp.DynamicProxy{DialTimeout: cfg.Proxy.DialTimeout, Lookup: lookupHostFn(cfg, notFound)}
		}
		ln, err := e.net.Listen(rt.Listen, simnet.ListenOpts{})
		if err != nil {
			r.Trouble("listen %s: %v", rt.Listen, err)
			return
		}
		// the listener as proxy.ListenTCP builds it (which itself needs a real socket): PROXY protocol wrapping when
		// the listener is configured with pxyproto=true
		var top net.Listener = ln
		if rt.Pxy {
			r.Probe("pxyproto_tcp_listener")
			top = &proxyproto.Listener{Listener: &c12SockLn{ln, st}, ProxyHeaderTimeout: time.Duration(rt.PxyTimeoutMs) * time.Millisecond}
		}
		srv := &tcp.Server{Handler: tcp.HandlerFunc(func(in net.Conn) error {
			var id string
			if ta, ok := in.LocalAddr().(c12TaggedAddr); ok {
				id = ta.id
			} else {
				from := in.RemoteAddr().String() // fabio code with scheduling points: not under the harness lock
				st.mu.Lock()
				id = st.byAddr[from]
				st.mu.Unlock()
			}
			st.enter(id)
			defer st.leave(id)
			return h.ServeTCP(in)
		})}
		servers = append(servers, srv)
		if sc.Tasked {
			// the accept loop is a task, so the goroutine fabio starts per connection is a child task
			e.d.Sim.Spawn(fmt.Sprintf("tsrv%d", i), func() { srv.Serve(top) })
		} else {
			go srv.Serve(top)
		}
	}

	maxSteps := 200000
	if sc.Tasked {
		maxSteps = 600000
	}
	start := func(idx []int) {
		for _, i := range idx {
			c12HTTPClient(e, sc, i)
		}
	}
	// epoch 0: the files are as fabio has loaded them
	start(sc.Epochs[0].Clients)
	for i := range sc.Conns {
		c12TCPClient(e, st, sc, &sc.Conns[i])
	}
	finished := e.run(maxSteps, 30*time.Minute)
	if !finished {
		// a connection that must be refused but is neither served nor closed leaves its client waiting
		stuck := false
		for i := range sc.Conns {
			cn := &sc.Conns[i]
			if res := st.tcp[cn.ID]; res != nil && !res.Done && expect[cn.ID].Verdict == c12Reject {
				stuck = true
				r.Fail("tcp-not-closed", sc.Routes[cn.Route].Proto+"/"+expect[cn.ID].Why, "tcp client %s from %s must be refused by route %s but its connection was neither closed nor served", cn.ID, cn.Addr, sc.Routes[cn.Route].Src)
			}
		}
		if !stuck {
			r.Trouble("clients did not finish")
			return
		}
	}
	// later epochs: the driver changes htpasswd files at a quiescent point (no request is in flight, the reload
	// tasks wait for their tickers or stand at a statement), lets the refresh interval pass and sends more clients
	settle := c12Slack
	for _, s := range sc.refreshing() {
		if d := time.Duration(sc.Refresh[s])*time.Second + c12Slack; d > settle {
			settle = d
		}
	}
	trail := "" // the changes so far, for the reach counters
	for k := 1; k < len(sc.Epochs) && finished; k++ {
		ep := &sc.Epochs[k]
		for j := range ep.Changes {
			ch := &ep.Changes[j]
			synctest.Wait()
			if err := disk.put(ch.Scheme, &ch.File); err != nil {
				r.Trouble("htpasswd change: %v", err)
				return
			}
			what, _, _ := strings.Cut(ch.What, " ")
			r.Tracef("epoch %d: htpasswd path of %s: %s -> %s version %d", k, ch.Scheme, what, ch.File.Kind, ch.File.Ver)
			r.Probe("htpasswd_" + what)
			if ch.Scheme == sc.refreshing()[0] {
				switch {
				case ch.File.Kind == "entries":
					trail += "P"
				case !strings.HasSuffix(trail, "A"):
					trail += "A"
				}
			}
			if ch.GapMs > 0 {
				e.d.AdvanceRunningTasks(time.Duration(ch.GapMs)*time.Millisecond, 50*time.Millisecond)
			}
		}
		if strings.Contains(trail, "APA") {
			r.Probe("htpasswd_gone_back_gone_again")
		}
		if len(ep.Window) > 0 {
			r.Probe("clients_between_change_and_refresh")
			start(ep.Window)
			if ep.Pre == 0 {
				finished = e.run(maxSteps, 30*time.Minute)
			}
			for i := 0; i < ep.Pre; i++ {
				synctest.Wait()
				if e.allDone() || !e.d.Step() {
					break
				}
			}
		}
		e.d.AdvanceRunningTasks(settle, 50*time.Millisecond)
		if len(ep.Window) > 0 {
			finished = finished && e.run(maxSteps, 30*time.Minute)
		}
		start(ep.Clients)
		finished = finished && e.run(maxSteps, 30*time.Minute)
		if !finished {
			r.Trouble("clients of epoch %d did not finish", k)
			return
		}
	}
	// let what is still in flight settle so that late upstream contacts are seen
	e.d.Run(3000, func() bool { return !e.net.Pending() })

	// ---- oracle ----
	nonReject := map[int]int{} // route -> requests/connections the reference does not refuse
	for i := range sc.Expect {
		ex := &sc.Expect[i]
		if ex.Verdict != c12Reject {
			nonReject[ex.route]++
		}
		switch ex.Verdict {
		case c12Reject:
			r.Nontrivial()
			r.Probe("ref_reject_" + ex.proto)
			r.Probe("why_" + ex.Why)
		case c12Admit:
			r.Probe("ref_admit_" + ex.proto)
		default:
			r.Probe("ref_either_" + ex.proto)
		}
		if ex.Attempt != "" {
			kind, _, _ := strings.Cut(ex.Attempt, " ")
			r.Probe("cred_" + kind + "_ref_" + ex.authVerdict)
			if ex.ordered {
				r.Probe("cred_after_login_on_same_client_ref_" + ex.authVerdict)
			}
			if ex.epoch > 0 {
				r.Probe("after_htpasswd_change_cred_" + kind + "_ref_" + ex.authVerdict)
			}
			if ex.window {
				r.Probe("between_change_and_refresh_ref_" + ex.authVerdict)
			}
		}
	}
	for ci := range sc.Clients {
		for qi := range sc.Clients[ci].Reqs {
			c12CheckHTTP(r, e, sc, ci, &sc.Clients[ci].Reqs[qi], expect)
		}
	}
	for i := range sc.Conns {
		c12CheckTCP(r, st, sc, &sc.Conns[i], expect)
	}
	// every dial must be on behalf of something the reference does not refuse
	for _, dl := range st.dials {
		justified, culprit := false, (*c12Expect)(nil)
		ri, known := keyRoute[dl.Key]
		for _, id := range dl.Inflight {
			ex := expect[id]
			if ex == nil || !known || ex.route != ri {
				continue
			}
			if ex.Verdict != c12Reject {
				justified = true
			} else if culprit == nil {
				culprit = ex
			}
		}
		switch {
		case justified:
		case culprit != nil:
			r.Fail("upstream-contacted", culprit.proto+"/"+culprit.Why, "fabio dialled %s while the only work for that upstream inside a handler was %s, which must be refused (%s); in flight: %v", dl.Key, culprit.ID, culprit.Why, dl.Inflight)
		default:
			r.Trouble("dial to %s with nothing in flight for it (in flight: %v)", dl.Key, dl.Inflight)
		}
	}
	for i := range sc.Routes {
		rt := &sc.Routes[i]
		// the instances of the service together are "the upstream" of the route
		var s simnet.AddrStats
		for _, k := range sc.keys(i) {
			ks := e.net.StatsFor(k)
			r.Tracef("upstream %s dials=%d accepted=%d bytes_in=%d", k, ks.Dials, ks.Accepted, ks.BytesIn)
			s.Dials, s.Accepted, s.BytesIn = s.Dials+ks.Dials, s.Accepted+ks.Accepted, s.BytesIn+ks.BytesIn
		}
		ups := strings.Join(sc.keys(i), ", ")
		r.Tracef("route %s non_rejected=%d", rt.Src, nonReject[i])
		if nonReject[i] == 0 && (s.Dials > 0 || s.BytesIn > 0) {
			r.Fail("upstream-contacted", rt.Proto+"/all-refused", "everything sent to route %s must be refused, yet its upstream %s saw %d connection attempts and %d bytes", rt.Src, ups, s.Dials, s.BytesIn)
		}
		if rt.Proto != "http" && s.Dials > nonReject[i] {
			r.Fail("upstream-contacted", rt.Proto+"/more-dials-than-admitted", "route %s: %d connection attempts to %s, only %d client connections are not refused by the reference", rt.Src, s.Dials, ups, nonReject[i])
		}
		if rt.ref.malformed {
			r.Probe("unparsable_rule_set")
		}
	}
}

// c12ServePxy is h2Env.serve for a listener with pxyproto=true: the real http.Server in front of the proxy, its
// listener wrapped as proxy.ListenTCP wraps a real one.
func c12ServePxy(e *h2Env, timeout time.Duration) {
	ln, err := e.net.Listen(h2FabioAddr, simnet.ListenOpts{})
	if err != nil {
		e.r.Trouble("listen: %v", err)
		e.r.Abort()
	}
	var h http.Handler = e.proxy
	if e.wrap != nil {
		h = e.wrap(h)
	}
	counted := http.HandlerFunc(func(w http.ResponseWriter, req *http.Request) {
		e.mu.Lock()
		e.handlers++
		e.mu.Unlock()
		h.ServeHTTP(w, req)
	})
	e.srv = &http.Server{Handler: counted}
	go e.srv.Serve(&proxyproto.Listener{Listener: ln, ProxyHeaderTimeout: timeout})
}

func c12IsWS(rq *h2Req) bool {
	for _, h := range rq.Headers {
		if h.K == "Upgrade" {
			return true
		}
	}
	return false
}

// c12HTTPUpstream is a raw recording upstream like h2Env.upstream (status, body and write sizes of the scripted
// reply) that also accepts websocket upgrades: it answers 101, greets ("ws-up <id>"), waits for the client's line
// and acknowledges it ("ws-ack <id>"), so that an admitted upgrade shows bytes flowing both ways.
func c12HTTPUpstream(e *h2Env, key string) {
	ln, err := e.net.Listen(key, simnet.ListenOpts{})
	if err != nil {
		e.r.Trouble("listen %s: %v", key, err)
		e.r.Abort()
	}
	serve := func(c net.Conn) {
		defer c.Close()
		br := bufio.NewReader(c)
		for {
			req, err := http.ReadRequest(br)
			if err != nil {
				return
			}
			body, berr := io.ReadAll(req.Body)
			s := &h2Seen{Upstream: key, Method: req.Method, RequestURI: req.RequestURI, Proto: req.Proto, Host: req.Host,
				Header: req.Header.Clone(), Body: body, BodyErr: berr, TE: req.TransferEncoding, CL: req.ContentLength,
				At: time.Now(), Remote: c.RemoteAddr().String()}
			id := req.Header.Get("X-Sim-Id")
			e.mu.Lock()
			e.seen[id] = append(e.seen[id], s)
			sc := e.script[id]
			e.mu.Unlock()
			e.r.Tracef("upstream %s got %s %s id=%s body=%d", key, req.Method, req.RequestURI, id, len(body))
			if sc == nil {
				io.WriteString(c, "HTTP/1.1 599 unscripted\r\nContent-Length: 0\r\n\r\n")
				continue
			}
			if req.Header.Get("Upgrade") != "" {
				io.WriteString(c, "HTTP/1.1 101 Switching Protocols\r\nUpgrade: websocket\r\nConnection: Upgrade\r\nSec-WebSocket-Accept: s3pPLMBiTxaQ9kYGzzhZRbK+xOo=\r\n\r\n")
				io.WriteString(c, "ws-up "+id+"\n")
				line, _ := br.ReadString('\n')
				e.mu.Lock()
				s.Body = []byte(line)
				e.mu.Unlock()
				e.r.Tracef("upstream %s tunnel id=%s got %q", key, id, line)
				if line != "" {
					io.WriteString(c, "ws-ack "+id+"\n")
				}
				return
			}
			rs := sc.Resp
			if err := h2WriteChunks(c, h2RenderResponse(req.Method, &rs), rs.Chunks); err != nil {
				return
			}
		}
	}
	go func() {
		for {
			c, err := ln.Accept()
			if err != nil {
				return
			}
			go serve(c)
		}
	}()
}

// c12HTTPClient is h2Env.client (raw HTTP/1.1 writer, http.ReadResponse as parser, keep-alive) for client ci of the
// scenario with two additions: every connection it opens starts with the client's PROXY header (written in one
// stream with the first request, so the segmentation cuts through it), and a websocket upgrade request that is
// answered with 101 is followed by the exchange of c12HTTPUpstream over the upgraded connection.
func c12HTTPClient(e *h2Env, sc *c12Scenario, ci int) {
	cl := &sc.Clients[ci]
	hdr := sc.ClientHdr[ci]
	e.mu.Lock()
	e.clients++
	for i := range cl.Reqs {
		e.script[cl.Reqs[i].ID] = &cl.Reqs[i]
	}
	e.mu.Unlock()
	go func() {
		defer func() {
			e.mu.Lock()
			e.done++
			e.mu.Unlock()
		}()
		base := e.netAddr(cl.Addr)
		var c net.Conn
		var br *bufio.Reader
		closeConn := func() {
			if c != nil {
				c.Close()
				c = nil
			}
		}
		defer closeConn()
		nconn := 0
		for i := range cl.Reqs {
			rq := &cl.Reqs[i]
			res := &h2Result{}
			e.mu.Lock()
			e.results[rq.ID] = res
			e.mu.Unlock()
			raw := h2RenderRequest(rq)
			if c == nil {
				from := &net.TCPAddr{IP: base.IP, Port: base.Port + nconn, Zone: base.Zone}
				nconn++
				nc, err := e.net.Dial(e.r.Ctx(), from, h2FabioAddr, 0)
				if err != nil {
					res.Err = err
					continue
				}
				c, br = nc, bufio.NewReader(nc)
				if hdr.Kind != "" {
					e.r.Tracef("client %s connection %d starts with proxy header %s %s", cl.Addr, nconn, hdr.Kind, hdr.Src)
				}
				raw = append([]byte(hdr.line(from.Port, 9999)), raw...)
			}
			res.SentAt = time.Now()
			e.r.Tracef("client %s sends %s %s id=%s", cl.Addr, rq.Method, rq.Path, rq.ID)
			if err := h2WriteChunks(c, raw, rq.Chunks); err != nil {
				res.Err = err
				closeConn()
				continue
			}
			resp, err := http.ReadResponse(br, &http.Request{Method: rq.Method})
			for err == nil && resp.StatusCode >= 100 && resp.StatusCode < 200 && resp.StatusCode != 101 {
				res.Interim = append(res.Interim, resp.StatusCode)
				resp, err = http.ReadResponse(br, &http.Request{Method: rq.Method})
			}
			if err != nil {
				res.Err = err
				closeConn()
				continue
			}
			res.HeaderAt = time.Now()
			res.Status, res.Proto, res.Header = resp.StatusCode, resp.Proto, resp.Header.Clone()
			res.TE, res.CL = resp.TransferEncoding, resp.ContentLength
			if resp.StatusCode == 101 {
				// the connection is a tunnel to the upstream now
				greeting, _ := br.ReadString('\n')
				if greeting != "" {
					io.WriteString(c, "ws-cl "+rq.ID+"\n")
				}
				ack, _ := br.ReadString('\n')
				res.Body = []byte(greeting + ack)
				res.DoneAt = time.Now()
				e.r.Tracef("client %s got %d id=%s tunnel %q", cl.Addr, res.Status, rq.ID, res.Body)
				closeConn()
				continue
			}
			res.Body, res.BodyErr = io.ReadAll(resp.Body)
			res.DoneAt = time.Now()
			e.r.Tracef("client %s got %d id=%s body=%d err=%v", cl.Addr, res.Status, rq.ID, len(res.Body), res.BodyErr)
			if resp.Close || res.BodyErr != nil {
				closeConn()
			}
		}
	}()
}

func c12TCPUpstream(e *h2Env, key string) {
	ln, err := e.net.Listen(key, simnet.ListenOpts{})
	if err != nil {
		e.r.Trouble("listen %s: %v", key, err)
		e.r.Abort()
	}
	go func() {
		for {
			c, err := ln.Accept()
			if err != nil {
				return
			}
			go func() {
				defer c.Close()
				io.WriteString(c, "UP "+key+"\n")
				io.Copy(io.Discard, c)
			}()
		}
	}()
}

func c12TCPClient(e *h2Env, st *c12State, sc *c12Scenario, cn *c12Conn) {
	rt := &sc.Routes[cn.Route]
	from := e.netAddr(cn.Addr)
	res := &c12TCPResult{}
	st.mu.Lock()
	st.tcp[cn.ID] = res
	st.byAddr[from.String()] = cn.ID
	st.mu.Unlock()
	var payload []byte
	if rt.Proto == "sni" {
		payload = c12ClientHello(strings.TrimSuffix(rt.Src, "/"))
	} else {
		payload = []byte("hello from " + cn.ID + "\n")
	}
	// on a pxyproto listener the stream starts with the PROXY header (if the client sends one)
	payload = append([]byte(cn.Hdr.line(from.Port, 7000)), payload...)
	e.mu.Lock()
	e.clients++
	e.mu.Unlock()
	go func() {
		defer func() {
			res.Done = true
			e.mu.Lock()
			e.done++
			e.mu.Unlock()
		}()
		c, err := e.net.Dial(e.r.Ctx(), from, rt.Listen, 0)
		if err != nil {
			res.DialErr = err
			return
		}
		defer c.Close()
		e.r.Tracef("tcp client %s connected from %s proxy header %q", cn.ID, cn.Addr, cn.Hdr.Kind+" "+cn.Hdr.Src)
		if cn.Early {
			return
		}
		h2WriteChunks(c, payload, cn.Chunks) // a refused connection may already be closed: errors are expected
		got, err := bufio.NewReader(c).ReadString('\n')
		res.Got, res.Closed = got, err != nil
		e.r.Tracef("tcp client %s got %q closed=%v", cn.ID, got, err != nil)
	}()
}

func c12Has(list []string, v string) bool {
	for _, x := range list {
		if x == v {
			return true
		}
	}
	return false
}

func c12AuthzOf(rq *h2Req) string {
	for _, h := range rq.Headers {
		if strings.EqualFold(h.K, "Authorization") {
			return h.V
		}
	}
	return ""
}

func c12CheckHTTP(r *simcore.Run, e *h2Env, sc *c12Scenario, ci int, rq *h2Req, expect map[string]*c12Expect) {
	cl := &sc.Clients[ci]
	ex := expect[rq.ID]
	rt := &sc.Routes[rq.Route]
	res := e.results[rq.ID]
	seen := e.seen[rq.ID]
	if res == nil {
		r.Trouble("no result for %s", rq.ID)
		return
	}
	what := fmt.Sprintf("%s %s (id %s) from %s via route %s allow=%q deny=%q auth=%q headers %v", rq.Method, rq.Path, rq.ID, cl.Addr, rt.Src, rt.Allow, rt.Deny, rt.Auth, rq.Headers[1:])
	if sc.HTTPPxy {
		what = fmt.Sprintf("%s [listener with pxyproto=true; the connection starts with %q]", what, strings.TrimSpace(sc.ClientHdr[ci].line(0, 9999)))
		r.Probe("pxyproto_http_" + ex.hdr + "_ref_" + ex.Verdict)
	}
	ws, via := "", ""
	if ex.ws {
		ws, via = "websocket/", "-websocket"
		what = "websocket upgrade: " + what
		r.Probe("websocket_ref_" + ex.Verdict)
	}
	if ex.hdr == "TCP4" || ex.hdr == "TCP6" {
		via += "-proxy-header"
	}
	if ex.Attempt != "" {
		if u, p, ok := c12BasicCreds(c12AuthzOf(rq)); ok {
			what += fmt.Sprintf(" [credentials %q / %q: %s]", u, p, ex.Attempt)
		} else {
			what += " [credentials: " + ex.Attempt + "]"
		}
	}
	after := ""
	if ex.epoch > 0 {
		after = "-after-htpasswd-change"
		what += fmt.Sprintf(" [epoch %d: sent one refresh interval after the last of the htpasswd changes so far]", ex.epoch)
		if ex.window {
			what = strings.TrimSuffix(what, "]") + ", this one before the interval had passed]"
		}
	}
	refused := res.Err == nil && (res.Status == 403 || res.Status == 401)
	forwarded := len(seen) > 0
	r.Tracef("http %s ref=%s/%s status=%d err=%v forwarded=%d", rq.ID, ex.Verdict, ex.Why, res.Status, res.Err != nil, len(seen))
	switch {
	case refused:
		r.Probe("http_refused_" + fmt.Sprint(res.Status) + "_ref_" + ex.Verdict)
	case forwarded:
		r.Probe("http_forwarded_ref_" + ex.Verdict)
	}
	if refused && forwarded {
		r.Fail("upstream-contacted", "http/"+ws+"answered-"+fmt.Sprint(res.Status)+"-but-forwarded", "%s: the client got %d but upstream %s received the request", what, res.Status, seen[0].Upstream)
		return
	}
	// the PROXY layer may turn down a connection that names no client address ("PROXY UNKNOWN"): closed without an answer
	turnedDown := ex.closedOK && res.Err != nil && !forwarded
	served := len(seen) == 1 && c12Has(sc.keys(rq.Route), seen[0].Upstream) && res.Err == nil && res.Status == rq.Resp.Status
	tunnel := ""
	if ex.ws && served {
		// admitted upgrade: 101 from the upstream, then bytes both ways
		r.Probe("websocket_101")
		if want := "ws-up " + rq.ID + "\nws-ack " + rq.ID + "\n"; string(res.Body) != want || string(seen[0].Body) != "ws-cl "+rq.ID+"\n" {
			served = false
			tunnel = fmt.Sprintf("; after the 101 the client received %q (expected %q) and the upstream %q", res.Body, want, seen[0].Body)
		} else {
			r.Probe("websocket_tunnelled")
		}
	}
	switch ex.Verdict {
	case c12Reject:
		if forwarded {
			r.Fail("http-admitted", ex.Why+via, "%s: the reference refuses it (%s) but upstream %s received it; client saw status=%d err=%v", what, ex.Why, seen[0].Upstream, res.Status, res.Err)
		} else if !refused && !turnedDown {
			r.Fail("http-no-refusal-status", ex.Why+via, "%s: the reference refuses it (%s); the client must get 403 or 401 but saw status=%d err=%v", what, ex.Why, res.Status, res.Err)
		}
	case c12Admit:
		if refused {
			r.Fail("http-over-denied", fmt.Sprint(res.Status)+after+via, "%s: rules and credentials admit it, the client got %d", what, res.Status)
		} else if !served {
			r.Fail("http-admitted-not-served", ws+"exchange", "%s: admitted, but upstream saw it %d times and the client got status=%d err=%v (upstream answers %d)%s", what, len(seen), res.Status, res.Err, rq.Resp.Status, tunnel)
		}
	default:
		if !refused && !served && !turnedDown {
			r.Fail("http-neither-refused-nor-served", ws+"exchange", "%s: status=%d err=%v, upstream saw it %d times%s", what, res.Status, res.Err, len(seen), tunnel)
		}
	}
}

func c12CheckTCP(r *simcore.Run, st *c12State, sc *c12Scenario, cn *c12Conn, expect map[string]*c12Expect) {
	ex := expect[cn.ID]
	rt := &sc.Routes[cn.Route]
	res := st.tcp[cn.ID]
	if res == nil || res.DialErr != nil {
		r.Trouble("tcp client %s could not connect: %v", cn.ID, res)
		return
	}
	if cn.Early || !res.Done {
		return
	}
	what := fmt.Sprintf("tcp client %s from %s via %s route %s allow=%q deny=%q", cn.ID, cn.Addr, rt.Proto, rt.Src, rt.Allow, rt.Deny)
	via := ""
	if rt.Pxy {
		what = fmt.Sprintf("%s [listener with pxyproto=true; the connection starts with %q]", what, strings.TrimSpace(cn.Hdr.line(0, 7000)))
		r.Probe("pxyproto_tcp_" + ex.hdr + "_ref_" + ex.Verdict)
		if ex.hdr == "TCP4" || ex.hdr == "TCP6" {
			via = "-proxy-header"
		}
	}
	greeted, whole := false, false // by an instance of the route's service (a connection cut off early may show a part of the greeting)
	for _, k := range sc.keys(cn.Route) {
		greeted = greeted || (res.Got != "" && strings.HasPrefix("UP "+k+"\n", res.Got))
		whole = whole || res.Got == "UP "+k+"\n"
	}
	if res.Got == "" {
		r.Probe("tcp_closed_ref_" + ex.Verdict)
	} else {
		r.Probe("tcp_connected_ref_" + ex.Verdict)
	}
	switch {
	case res.Got != "" && !greeted:
		r.Fail("tcp-wrong-upstream", rt.Proto, "%s: received %q, its route points to %v", what, res.Got, sc.keys(cn.Route))
	case ex.Verdict == c12Reject && res.Got != "":
		r.Fail("tcp-admitted", rt.Proto+"/"+ex.Why+via, "%s: the reference refuses it (%s) but it was connected to the upstream (received %q)", what, ex.Why, res.Got)
	case ex.Verdict == c12Admit && !whole:
		r.Fail("tcp-over-denied", rt.Proto+via, "%s: the rules admit it but the connection was closed without reaching the upstream", what)
	}
}

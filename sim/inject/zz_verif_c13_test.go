//go:build verif

package main

// C13 — redirect routes answer from the request alone.
//
// One run builds a table of 1-3 path slots; every slot carries a chain of
// routes for the same path prefix on different host levels (exact host, glob
// host, no host) so that the self-redirect skip has a "next matching host".
// Routes are redirect routes in every template form of
// docs/content/feature/http-redirects.md (written as "route add" text or
// generated from a "urlprefix-... redirect=<code>,<url>" tag by the real
// registry/consul routecmd), plain proxy routes and routes with an out-of-range
// redirect code. The strip option takes every relation to the route path and
// the request path: equal to the route path, a proper prefix of it, longer
// than it, a segment the request path carries further right (once or twice)
// but not in front, and one it does not contain.
//
// Requests carry whatever a client may send besides what the property speaks
// about: any method, bodies (fixed length and chunked), websocket upgrade and
// server-sent-event headers, cookies, credentials, forwarding headers and so on.
// The answer of a redirect route depends on none of it, and "no upstream is
// contacted" is checked over every connection fabio opens (simnet dial log,
// all addresses - the host named in the redirect target included).
//
// Requests of one run are RELATED more often than not ("from the request
// alone" means: not from an earlier one): a request is derived from an earlier
// request of the run - of any client - by re-spelling what the two have in
// common: the same decoded path in another percent-encoding (%2F vs /, %41 vs A,
// upper/lower-case hex, reserved characters encoded or literal), the same path
// in another letter case, another query / no query, the same host with or
// without port and in another letter case, another X-Forwarded-Proto, or
// nothing at all (an identical repeat). Derivations chain, so every order occurs.
//
// Four modes in two parts (harness c13h: sequence, event - nothing is
// interleaved inside fabio code; harness c13: tasks, event-adopted), chosen per run:
//   sequence       one caller issues 2-8 requests one after the other to the real
//                  HTTPProxy.ServeHTTP, nothing is interleaved: pure history
//   tasks          2-8 tasks call the real HTTPProxy.ServeHTTP of
//                  main.newHTTPProxy concurrently; the driver interleaves them
//                  at every statement of fabio code (stub RoundTripper upstream)
//   event          real http.Server over simnet, raw keep-alive clients, raw
//                  recording upstreams; every segmentation/delivery order is a
//                  driver choice
//   event-adopted  as event, and the handler goroutines of net/http are adopted
//                  as tasks, so requests are also interleaved statement by
//                  statement inside Lookup/BuildRedirectURL/ServeHTTP
//
// Oracle: a reference expansion written from the property statement and the
// documentation (c13Expand/c13Expect below); fabio's BuildRedirectURL is not
// consulted. A redirect that certainly points back at the request is never an
// admitted answer: the next matching host's route answers, and when no further
// host has a route the configured no-route status is due.

import (
	"bufio"
	"bytes"
	"fmt"
	"io"
	"net/http"
	"net/http/httptest"
	"net/url"
	"strconv"
	"strings"
	"sync"
	"time"

	"github.com/fabiolb/fabio/config"
	"github.com/fabiolb/fabio/internal/zzverif/simcore"
	"github.com/fabiolb/fabio/internal/zzverif/simhook"
	"github.com/fabiolb/fabio/internal/zzverif/simnet"
	"github.com/fabiolb/fabio/noroute"
	"github.com/fabiolb/fabio/registry/consul"
	"github.com/fabiolb/fabio/route"
)

func init() {
	// Two parts, explored one after the other in separate worker processes:
	//   c13h  history: nothing is interleaved inside fabio code (modes sequence, event)
	//   c13   interleaving: statement-level tasks (modes tasks, event-adopted)
	// The history part comes first. It stays decidable for a change whose shared state is guarded
	// by a lock the instrumenter does not simulate (a task parked while holding such a lock
	// stalls the interleaving part in real time: trouble, never a verdict).
	zzHarnesses = append(zzHarnesses,
		&simcore.Harness{Name: "c13h", Props: []string{"C13"}, Run: func(r *simcore.Run) { runC13(r, c13HistoryModes) }},
		&simcore.Harness{Name: "c13", Props: []string{"C13"}, Run: func(r *simcore.Run) { runC13(r, c13InterleavedModes) }})
}

// ---------------------------------------------------------------- scenario

type c13Route struct {
	Level   string `json:"host_level"` // exact | glob | none
	Kind    string `json:"kind"`       // redirect | proxy | badcode
	Code    int    `json:"code,omitempty"`
	Scheme  string `json:"scheme,omitempty"`
	THost   string `json:"target_host,omitempty"`
	Form    string `json:"target_path_form"`
	TQuery  string `json:"target_query,omitempty"`
	Strip   string `json:"strip,omitempty"`
	Prepend string `json:"prepend,omitempty"`
	ViaTag  bool   `json:"via_urlprefix_tag,omitempty"`
	Up      string `json:"upstream,omitempty"`
	Cmd     string `json:"route_command"`
}

type c13Slot struct {
	Prefix string     `json:"prefix"`
	Routes []c13Route `json:"routes"` // most specific host level first
}

type c13Req struct {
	ID      string     `json:"id"`
	Slot    int        `json:"slot"`
	Method  string     `json:"method"`
	Host    string     `json:"host"`
	Path    string     `json:"path"` // escaped, as written on the wire
	Query   string     `json:"query,omitempty"`
	XFP     string     `json:"x_forwarded_proto,omitempty"`
	Extra   []h2Header `json:"extra_headers,omitempty"` // whatever else the request carries
	BodyLen int        `json:"body_len,omitempty"`
	Chunked bool       `json:"chunked_body,omitempty"`
	Chunks  []int      `json:"write_chunks,omitempty"`
	From    string     `json:"derived_from,omitempty"` // id of the earlier request this one re-spells
	Vary    []string   `json:"varied,omitempty"`       // what was re-spelt
}

type c13Client struct {
	Addr string   `json:"addr"`
	Reqs []c13Req `json:"requests"`
}

type c13Scenario struct {
	Mode         string      `json:"mode"`
	Related      bool        `json:"related_requests,omitempty"`
	GlobDisabled bool        `json:"glob_matching_disabled,omitempty"`
	Exact80      bool        `json:"exact_host_pattern_with_port_80,omitempty"`
	Slots        []c13Slot   `json:"slots"`
	Clients      []c13Client `json:"clients"`
	NoRoute      int         `json:"no_route_status"`
	Stick        int         `json:"stick"`
}

const (
	c13ExactHost = "www.example.com"
	c13GlobHost  = "*.example.com"
)

var c13LevelSets = [][]string{
	{"none"}, {"exact", "none"}, {"exact"}, {"glob", "none"}, {"exact", "glob", "none"}, {"glob"}, {"exact", "glob"},
}
var c13Codes = []int{301, 302, 303, 307, 308, 301, 302, 300, 399, 304}
var c13BadCodes = []int{200, 999, 299, 400}
var c13Schemes = []string{"https", "http"}
var c13THosts = []string{"new.example.org", "$host", c13ExactHost, "$host", "new.example.org:8443"}
var c13Forms = []string{"$path", "/$path", "$path", "/bbb$path", "/bbb/$path", "/", "/a/b/c", ""}
var c13TQueries = []string{"", "", "", "foo=bar", "a=1&b=2"}
var c13Prepends = []string{"", "", "", "/pre", "/pre/fix"}

// request material: paths over an alphabet on which Go's default escaping is the
// identity, plus explicit escapes of reserved characters and of characters that
// must be escaped. Every suffix is empty or starts with a slash.
var c13Suffixes = []string{"", "/", "/a", "/a/b", "/a%2Fb", "/x%20y", "/100%25", "/caf%C3%A9", "/a;v=1", "/a,b", "/a+b",
	"/%2F", "/a%2fb/c", "/a%3Fb", "/a%23b", "/a%3Bb", "/~u/-_.", "/A/b", "/a/b/",
	// material for the strip option: the segment "/s" first, later, twice, alone
	"/s", "/s/a", "/a/s/b", "/s/s/a", "/s/x%2Fy", "/a%2Fb/s", "/a/s"}
var c13Queries = []string{"", "", "a=1", "a=1&a=2&b", "x=%2F%20&y=+", "q=a%26b",
	// the same parameters once more: other value, other order, other encoding, other case, trailing separator
	"a=2", "b&a=2&a=1", "x=%2f%20&y=+", "x=/%20&y=%20", "A=1", "a=1&"}
var c13Hosts = []string{c13ExactHost, "api.example.com", "other.test", c13ExactHost + ":80", c13ExactHost + ":8080"}
var c13XFPs = []string{"", "https", "http"}
var c13Methods = []string{"GET", "GET", "HEAD", "POST", "DELETE", "PUT", "PATCH", "OPTIONS"}
var c13NoRoute = []int{404, 404, 503, 410, 404}

// What else a request may carry. A redirect route answers from the request line,
// the host and X-Forwarded-Proto alone; none of these may change the answer.
var c13Extras = [][]h2Header{
	nil, nil, nil,
	{{"Upgrade", "websocket"}, {"Connection", "Upgrade"}, {"Sec-WebSocket-Key", "dGhlIHNhbXBsZSBub25jZQ=="}, {"Sec-WebSocket-Version", "13"}},
	{{"Accept", "text/event-stream"}},
	{{"Cookie", "sid=abc; theme=dark"}},
	{{"Upgrade", "Websocket"}, {"Connection", "upgrade"}},
	{{"Accept", "text/html,application/xhtml+xml;q=0.9,*/*;q=0.8"}, {"Accept-Language", "de,en;q=0.5"}},
	{{"Authorization", "Basic dXNlcjpwYXNz"}},
	{{"Accept", "text/event-stream"}, {"Cache-Control", "no-cache"}, {"Last-Event-ID", "17"}},
	{{"Referer", "http://www.example.com/p0/a"}, {"Origin", "http://www.example.com"}},
	{{"X-Forwarded-Host", "evil.test"}, {"X-Forwarded-For", "203.0.113.7"}, {"X-Forwarded-Port", "8443"}},
	{{"Forwarded", "for=203.0.113.7;proto=https;host=evil.test"}},
	{{"Upgrade", "WebSocket"}, {"Connection", "keep-alive, Upgrade"}},
	{{"Upgrade", "h2c"}, {"Connection", "Upgrade, HTTP2-Settings"}, {"HTTP2-Settings", "AAMAAABkAAQAAP__"}},
	{{"Content-Type", "application/json"}},
	{{"Location", "http://evil.test/"}, {"X-Real-Ip", "203.0.113.9"}},
	{{"If-None-Match", "\"abc\""}, {"If-Modified-Since", "Sat, 01 Jan 2000 00:00:00 GMT"}},
	{{"Range", "bytes=0-9"}},
}

// c13IsWS: the request asks for a websocket upgrade (any spelling).
func c13IsWS(hs []h2Header) bool {
	for _, h := range hs {
		if strings.EqualFold(h.K, "Upgrade") && strings.EqualFold(h.V, "websocket") {
			return true
		}
	}
	return false
}

func c13HasHeader(hs []h2Header, k string) bool {
	for _, h := range hs {
		if strings.EqualFold(h.K, k) {
			return true
		}
	}
	return false
}

// c13Strips: the strip values tried on a route for prefix: none, the route
// path itself, a proper prefix of it, longer than it, a segment that request
// paths carry somewhere but (unless the route is the catch-all) not in front,
// and one that occurs nowhere. All of them end at a segment boundary of every
// generated request path they prefix.
func c13Strips(prefix string) []string {
	out := []string{"", ""}
	if prefix != "/" {
		out = append(out, prefix)
		if i := strings.LastIndex(prefix, "/"); i > 0 {
			out = append(out, prefix[:i])
		}
		out = append(out, prefix+"/s")
	}
	return append(out, "/s", "/zzz")
}

func c13HostPattern(sc *c13Scenario, level string) string {
	switch level {
	case "exact":
		if sc.Exact80 {
			return c13ExactHost + ":80"
		}
		return c13ExactHost
	case "glob":
		return c13GlobHost
	}
	return ""
}

func c13JoinPath(prefix, suffix string) string {
	if prefix == "/" {
		if suffix == "" {
			return "/"
		}
		return suffix
	}
	return prefix + suffix
}

func c13Target(rt *c13Route) string {
	t := rt.Scheme + "://" + rt.THost + rt.Form
	if rt.TQuery != "" {
		t += "?" + rt.TQuery
	}
	return t
}

// ---------------------------------------------------------------- related requests

// c13Tok is one character of a path: its value and how it is written on the wire.
type c13Tok struct {
	dec byte
	enc string
}

func c13Tokens(p string) []c13Tok {
	var out []c13Tok
	for i := 0; i < len(p); i++ {
		if p[i] == '%' && i+2 < len(p) {
			if v, err := strconv.ParseUint(p[i+1:i+3], 16, 8); err == nil {
				out = append(out, c13Tok{byte(v), p[i : i+3]})
				i += 2
				continue
			}
		}
		out = append(out, c13Tok{p[i], p[i : i+1]})
	}
	return out
}

func c13JoinToks(toks []c13Tok) string {
	var b strings.Builder
	for _, t := range toks {
		b.WriteString(t.enc)
	}
	return b.String()
}

// c13TokForms: the other spellings of one path character: literal where the
// character may stand for itself in a path (the harness alphabet: unreserved
// characters, the slash and the sub-delimiters ; , + =), %XX in upper-case and
// in lower-case hex. The simplest spelling comes first.
func c13TokForms(t c13Tok) []string {
	var out []string
	add := func(s string) {
		if s == t.enc {
			return
		}
		for _, x := range out {
			if x == s {
				return
			}
		}
		out = append(out, s)
	}
	c := t.dec
	if c >= 'a' && c <= 'z' || c >= 'A' && c <= 'Z' || c >= '0' && c <= '9' || strings.IndexByte("-_.~/;,+=", c) >= 0 {
		add(string(c))
	}
	add(fmt.Sprintf("%%%02X", c))
	add(fmt.Sprintf("%%%02x", c))
	return out
}

// c13Protected marks the characters of a request path that are never re-spelt:
// the route path in front (the request stays on its route) and every strip
// value of the slot that prefixes the path, together with the character after
// it (a strip value keeps ending at a segment boundary of the escaped path and
// contains no escapes, see the assumptions). Letter case is ignored so that a
// change of case cannot produce such a prefix either.
func c13Protected(prefix string, toks []c13Tok) []bool {
	dec := make([]byte, len(toks))
	for i, t := range toks {
		dec[i] = t.dec
	}
	prot := make([]bool, len(toks))
	mark := func(last int) {
		for i := 0; i <= last && i < len(prot); i++ {
			prot[i] = true
		}
	}
	mark(len(prefix) - 1)
	for _, s := range c13Strips(prefix) {
		if s != "" && len(dec) >= len(s) && strings.EqualFold(string(dec[:len(s)]), s) {
			mark(len(s))
		}
	}
	return prot
}

// c13Reencode: the same decoded path, 1-3 characters spelt differently.
func c13Reencode(g *simcore.Tape, prefix, path string) string {
	toks := c13Tokens(path)
	prot := c13Protected(prefix, toks)
	var cand []int
	for i, t := range toks {
		if !prot[i] && len(c13TokForms(t)) > 0 {
			cand = append(cand, i)
		}
	}
	if len(cand) == 0 {
		return path
	}
	for n := g.Range(1, 3); n > 0; n-- {
		i := cand[g.Intn(len(cand))]
		toks[i].enc = simcore.Pick(g, c13TokForms(toks[i]))
	}
	return c13JoinToks(toks)
}

// c13Recase: one letter of the path in the other case (another path that a
// case-folding reader takes for the same).
func c13Recase(g *simcore.Tape, prefix, path string) string {
	toks := c13Tokens(path)
	prot := c13Protected(prefix, toks)
	var cand []int
	for i, t := range toks {
		if !prot[i] && len(t.enc) == 1 && (t.dec >= 'a' && t.dec <= 'z' || t.dec >= 'A' && t.dec <= 'Z') {
			cand = append(cand, i)
		}
	}
	if len(cand) == 0 {
		return path
	}
	i := cand[g.Intn(len(cand))]
	toks[i].dec ^= 0x20
	toks[i].enc = string(toks[i].dec)
	return c13JoinToks(toks)
}

// c13HostForms: the other spellings of a request host: lower case, upper case,
// capitalised labels; without port, with the default port, with another port
// (the last one is another host, related only to a reader that ignores ports).
func c13HostForms(host string) []string {
	name := host
	if i := strings.LastIndex(host, ":"); i >= 0 {
		name = host[:i]
	}
	lower := strings.ToLower(name)
	labels := strings.Split(lower, ".")
	for i, l := range labels {
		if l != "" {
			labels[i] = strings.ToUpper(l[:1]) + l[1:]
		}
	}
	var out []string
	for _, n := range []string{lower, strings.ToUpper(lower), strings.Join(labels, ".")} {
		for _, p := range []string{"", ":80", ":8080"} {
			if n+p != host {
				out = append(out, n+p)
			}
		}
	}
	return out
}

var c13Variations = []string{"repeat", "path-encoding", "query", "host", "path-encoding", "x-forwarded-proto", "query", "path-case", "host"}

// c13Derive turns rq (a copy of an earlier request's slot, host, path, query and
// X-Forwarded-Proto) into a request related to it.
func c13Derive(g *simcore.Tape, sc *c13Scenario, rq *c13Req) {
	prefix := sc.Slots[rq.Slot].Prefix
	n := 1
	if g.Chance(30) {
		n = 2
	}
	for ; n > 0; n-- {
		v := simcore.Pick(g, c13Variations)
		switch v {
		case "path-encoding":
			rq.Path = c13Reencode(g, prefix, rq.Path)
		case "path-case":
			rq.Path = c13Recase(g, prefix, rq.Path)
		case "query":
			rq.Query = simcore.Pick(g, c13Queries)
		case "host":
			rq.Host = simcore.Pick(g, c13HostForms(rq.Host))
		case "x-forwarded-proto":
			rq.XFP = simcore.Pick(g, c13XFPs)
		}
		rq.Vary = append(rq.Vary, v)
	}
}

// the simplest mode of a part comes first (shrinking drives towards it)
var c13HistoryModes = []string{"sequence", "event"}
var c13InterleavedModes = []string{"tasks", "event-adopted"}

func c13Gen(r *simcore.Run, thorough bool, modes []string) *c13Scenario {
	g := r.Gen
	sc := &c13Scenario{}
	sc.Mode = simcore.Pick(g, modes)
	sc.Related = g.Chance(70)
	sc.GlobDisabled = g.Chance(15)
	sc.Exact80 = g.Chance(25)
	ns := g.Range(1, 3)
	for j := 0; j < ns; j++ {
		sl := c13Slot{Prefix: fmt.Sprintf("/p%d", j)}
		if ns == 1 && g.Chance(30) {
			sl.Prefix = "/" // the catch-all form of the documentation
		} else if g.Chance(25) {
			sl.Prefix += "/q" // a route path of two segments: a strip value can be a proper prefix of it
		}
		levels := simcore.Pick(g, c13LevelSets)
		for _, lv := range levels {
			if lv == "glob" && sc.GlobDisabled {
				continue
			}
			rt := c13Route{Level: lv}
			src := c13HostPattern(sc, lv) + sl.Prefix
			name := fmt.Sprintf("s%d%s", j, lv)
			rt.Kind = simcore.Pick(g, []string{"redirect", "redirect", "redirect", "proxy", "redirect", "redirect", "badcode", "redirect"})
			switch rt.Kind {
			case "redirect":
				rt.Code = simcore.Pick(g, c13Codes)
				rt.Scheme = simcore.Pick(g, c13Schemes)
				rt.THost = simcore.Pick(g, c13THosts)
				rt.Form = simcore.Pick(g, c13Forms)
				rt.TQuery = simcore.Pick(g, c13TQueries)
				rt.Strip = simcore.Pick(g, c13Strips(sl.Prefix))
				rt.Prepend = simcore.Pick(g, c13Prepends)
				if g.Chance(30) {
					// the shape that can point back at the request itself
					rt.THost, rt.Form, rt.Strip, rt.Prepend = simcore.Pick(g, []string{"$host", c13ExactHost}), "$path", "", ""
				}
				if strings.Contains(rt.THost, ":") && rt.Form == "$path" {
					rt.Form = "/$path" // "host:8443$path" is not a URL
				}
				rt.ViaTag = g.Chance(25)
				var opts []string
				if rt.Strip != "" {
					opts = append(opts, "strip="+rt.Strip)
				}
				if rt.Prepend != "" {
					opts = append(opts, "prepend="+rt.Prepend)
				}
				if rt.ViaTag {
					tag := fmt.Sprintf("urlprefix-%s redirect=%d,%s", src, rt.Code, c13Target(&rt))
					if len(opts) > 0 {
						tag += " " + strings.Join(opts, " ")
					}
					cmds := consul.ZZC13RouteCmds(name, "10.9.9.9", 1234, []string{tag}, "urlprefix-")
					if len(cmds) != 1 {
						r.Fail("tag-form", "no-route-command", "tag %q produced %d route commands: %q", tag, len(cmds), cmds)
					}
					rt.Cmd = strings.Join(cmds, "\n")
				} else {
					opts = append([]string{fmt.Sprintf("redirect=%d", rt.Code)}, opts...)
					rt.Cmd = fmt.Sprintf("route add %s %s %s opts \"%s\"", name, src, c13Target(&rt), strings.Join(opts, " "))
				}
			case "proxy":
				rt.Up = fmt.Sprintf("up%d%s.sim:80", j, lv)
				rt.Cmd = fmt.Sprintf("route add %s %s http://%s/", name, src, rt.Up)
			case "badcode":
				rt.Code = simcore.Pick(g, c13BadCodes)
				rt.Up = fmt.Sprintf("up%d%s.sim:80", j, lv)
				rt.Cmd = fmt.Sprintf("route add %s %s http://%s/ opts \"redirect=%d\"", name, src, rt.Up, rt.Code)
			}
			sl.Routes = append(sl.Routes, rt)
		}
		sc.Slots = append(sc.Slots, sl)
	}
	nc := g.Range(2, 4)
	if thorough {
		nc = g.Range(2, 8)
	}
	switch sc.Mode {
	case "event":
		nc = g.Range(1, 3)
	case "sequence":
		nc = 1
	}
	id := 0
	var hist []c13Req // the requests generated so far, in the order of generation
	for c := 0; c < nc; c++ {
		cl := c13Client{Addr: fmt.Sprintf("192.0.2.%d:%d", 10+c, 5000+100*c)}
		n := g.Range(1, 3)
		if sc.Related {
			n = g.Range(1, 5)
		}
		if sc.Mode == "sequence" {
			n = g.Range(2, 8)
			if thorough {
				n = g.Range(2, 16)
			}
		}
		for k := 0; k < n; k++ {
			rq := c13Req{ID: fmt.Sprintf("r%d", id)}
			id++
			rq.Method = simcore.Pick(g, c13Methods)
			if sc.Related && len(hist) > 0 && g.Chance(70) {
				// a request related to an earlier one (of any client): same route, and host, path, query
				// and X-Forwarded-Proto equal up to what c13Derive re-spells
				src := hist[len(hist)-1-g.Intn(len(hist))]
				rq.Slot, rq.Host, rq.Path, rq.Query, rq.XFP, rq.From = src.Slot, src.Host, src.Path, src.Query, src.XFP, src.ID
				c13Derive(g, sc, &rq)
			} else {
				rq.Slot = g.Intn(ns)
				rq.Host = simcore.Pick(g, c13Hosts)
				prefix := sc.Slots[rq.Slot].Prefix
				suffixes := c13Suffixes
				if prefix != "/" {
					// the route path once more further right: a strip value equal to it occurs twice
					suffixes = append(append([]string{}, c13Suffixes...), prefix+"/x", "/x"+prefix, prefix)
				}
				rq.Path = c13JoinPath(prefix, simcore.Pick(g, suffixes))
				rq.Query = simcore.Pick(g, c13Queries)
				rq.XFP = simcore.Pick(g, c13XFPs)
			}
			hist = append(hist, rq)
			onlyRedirects := true
			for _, fold := range []bool{true, false} {
				for _, c := range c13Candidates(sc, &rq, fold) {
					onlyRedirects = onlyRedirects && c.Kind == "redirect"
				}
			}
			for n := []int{0, 1, 0, 1, 2}[g.Intn(5)]; n > 0; n-- {
				grp := simcore.Pick(g, c13Extras)
				dup := false
				for _, h := range grp {
					dup = dup || c13HasHeader(rq.Extra, h.K)
				}
				// A websocket upgrade is sent only where no plain route can take the request:
				// what a client gets through a tunnel to a plain upstream is not this property's business.
				if dup || (c13IsWS(grp) && !onlyRedirects) {
					continue
				}
				rq.Extra = append(rq.Extra, grp...)
			}
			switch g.Intn(6) {
			case 1:
				rq.BodyLen = g.Range(1, 40)
			case 2:
				rq.BodyLen, rq.Chunked = g.Range(1, 40), true
			case 3:
				rq.BodyLen, rq.Chunked = g.Range(100, 2000), g.Bool()
			}
			switch g.Intn(4) {
			case 1:
				rq.Chunks = []int{1, 1, 1}
			case 2:
				rq.Chunks = []int{1 + g.Intn(40)}
			case 3:
				rq.Chunks = []int{1 + g.Intn(20), 1 + g.Intn(20), 1 + g.Intn(20)}
			}
			cl.Reqs = append(cl.Reqs, rq)
			if c13IsWS(rq.Extra) && sc.Mode != "sequence" {
				break // a connection that asked for an upgrade is not used for further requests
			}
		}
		sc.Clients = append(sc.Clients, cl)
	}
	sc.NoRoute = simcore.Pick(g, c13NoRoute)
	sc.Stick = []int{1, 1, 3, 8}[g.Intn(4)]
	return sc
}

func c13Table(sc *c13Scenario) string {
	var b strings.Builder
	for _, sl := range sc.Slots {
		for _, rt := range sl.Routes {
			if rt.Cmd != "" {
				b.WriteString(rt.Cmd)
				b.WriteString("\n")
			}
		}
	}
	return b.String()
}

// ---------------------------------------------------------------- reference model

type c13Outcome struct {
	Kind string // redirect | proxy | noroute | any (expectations only) | other (observations only)
	Code int
	Loc  string
	Up   string
	rt   *c13Route
}

func (o c13Outcome) String() string {
	switch o.Kind {
	case "redirect":
		return fmt.Sprintf("%d Location: %s", o.Code, o.Loc)
	case "proxy":
		return "proxied to " + o.Up
	case "noroute":
		return "no-route answer"
	case "any":
		return "anything (out-of-range code)"
	}
	return fmt.Sprintf("status %d Location %q", o.Code, o.Loc)
}

// c13HostMatches: does a route on this host level apply to a request for host
// arriving on a plain HTTP listener. The exact pattern is the HTTP endpoint
// www.example.com[:80]; the glob covers one more label. Host names are
// case-insensitive, the statement does not say whether "matching" is: fold
// selects the reading (a lower-case host reads the same both ways).
func c13HostMatches(level, host string, fold bool) bool {
	h := strings.TrimSuffix(host, ":80")
	if fold {
		h = strings.ToLower(h)
	}
	switch level {
	case "exact":
		return h == c13ExactHost
	case "glob":
		return strings.HasSuffix(h, ".example.com")
	}
	return true
}

func c13Candidates(sc *c13Scenario, rq *c13Req, fold bool) []*c13Route {
	var out []*c13Route
	sl := &sc.Slots[rq.Slot]
	for _, lv := range []string{"exact", "glob", "none"} {
		for i := range sl.Routes {
			if sl.Routes[i].Level == lv && c13HostMatches(lv, rq.Host, fold) {
				out = append(out, &sl.Routes[i])
			}
		}
	}
	return out
}

type c13Variant struct {
	Host, Path, Query string
}

// c13Expand lists every Location the statement admits for rq on route rt:
// $path = the request's escaped path after strip and prepend, $host = the
// request host (as sent; for a host sent with upper-case letters also its
// lower-case form), the request's query iff the target has none.
// Where the text leaves room, all readings are admitted:
//   - ".../$path" joins with one slash (documented by fabio's examples) or literally
//   - an empty $path (everything stripped) may also be written "/"
//   - a target without any path may be written with or without the trailing "/"
//   - a fixed target (no $path) may or may not carry the request's query
func c13Expand(rt *c13Route, rq *c13Req) []c13Variant {
	p := rq.Path
	if rt.Strip != "" && strings.HasPrefix(p, rt.Strip) {
		p = p[len(rt.Strip):]
	}
	p = rt.Prepend + p
	ps := []string{p}
	if p == "" {
		ps = []string{"", "/"}
	}
	hosts := []string{strings.Replace(rt.THost, "$host", rq.Host, 1)}
	if lh := strings.ToLower(rq.Host); lh != rq.Host && strings.Contains(rt.THost, "$host") {
		hosts = append(hosts, strings.Replace(rt.THost, "$host", lh, 1))
	}
	var paths []string
	add := func(s string) {
		for _, x := range paths {
			if x == s {
				return
			}
		}
		paths = append(paths, s)
	}
	hasVar := strings.HasSuffix(rt.Form, "$path")
	switch {
	case strings.HasSuffix(rt.Form, "/$path"):
		pre := strings.TrimSuffix(rt.Form, "/$path")
		for _, x := range ps {
			add(pre + x)                                // "/$path" read as "$path" (x is empty or starts with a slash)
			add(pre + "/" + strings.TrimPrefix(x, "/")) // joined with exactly one slash
			add(pre + "/" + x)                          // literal substitution
		}
	case hasVar:
		pre := strings.TrimSuffix(rt.Form, "$path")
		for _, x := range ps {
			add(pre + x)
		}
	default:
		add(rt.Form)
		if rt.Form == "" {
			add("/")
		}
	}
	var queries []string
	switch {
	case rt.TQuery != "":
		queries = []string{rt.TQuery}
	case rq.Query == "":
		queries = []string{""}
	case hasVar:
		queries = []string{rq.Query}
	default:
		queries = []string{"", rq.Query}
	}
	var out []c13Variant
	for _, host := range hosts {
		for _, pp := range paths {
			for _, q := range queries {
				out = append(out, c13Variant{Host: host, Path: pp, Query: q})
			}
		}
	}
	return out
}

func (v c13Variant) location(scheme string) string {
	s := scheme + "://" + v.Host + v.Path
	if v.Query != "" {
		s += "?" + v.Query
	}
	return s
}

// c13Self: does the redirect point back at the request's own scheme, host and
// path? 1 yes, 0 no, -1 the statement does not settle it.
// Scheme: settled only through X-Forwarded-Proto (DESIGN, readings fixed in
// advance); where the connection's scheme (always http here) and the header
// disagree or the header is absent, and one of them equals the target scheme, it
// is left open. Host: equal as sent; differing only by the default port or only in
// letter case is left open.
// Path: equal as written on the wire; equal only after percent-decoding is left open.
func c13Self(rt *c13Route, rq *c13Req, v c13Variant) int {
	res := 1
	switch {
	case rq.XFP != "" && rq.XFP == rt.Scheme:
	case rt.Scheme == "http": // the connection's scheme, header absent or different
		res = -1
	default:
		return 0
	}
	switch {
	case v.Host == rq.Host:
	case strings.EqualFold(v.Host, rq.Host):
		res = -1
	case rt.Scheme == "http" && strings.EqualFold(strings.TrimSuffix(v.Host, ":80"), strings.TrimSuffix(rq.Host, ":80")):
		res = -1
	default:
		return 0
	}
	switch {
	case v.Path == rq.Path:
	case c13Unescape(v.Path) == c13Unescape(rq.Path): // same path only after decoding %2F and the like: left open
		res = -1
	default:
		return 0
	}
	return res
}

type c13Expectation struct {
	Acc          []c13Outcome
	SkipDemanded bool         // the first candidate must be skipped
	SelfLocs     []string     // Locations of candidates that point back at the request (settled or left open)
	MustSkip     []string     // Locations that certainly point back at the request: never the answer
	Later        []c13Outcome // plain outcomes of the candidates after the first one
	Redirect     bool         // the first candidate is a redirect route
}

func c13ExpectChain(cands []*c13Route, rq *c13Req, depth int, ex *c13Expectation) []c13Outcome {
	if len(cands) == 0 {
		return []c13Outcome{{Kind: "noroute"}}
	}
	c, rest := cands[0], cands[1:]
	switch c.Kind {
	case "proxy":
		return []c13Outcome{{Kind: "proxy", Up: c.Up, rt: c}}
	case "badcode":
		return []c13Outcome{{Kind: "any", rt: c}}
	}
	var out []c13Outcome
	cont := false
	allSelf := true
	for _, v := range c13Expand(c, rq) {
		self := c13Self(c, rq, v)
		loc := v.location(c.Scheme)
		if self != 1 {
			out = append(out, c13Outcome{Kind: "redirect", Code: c.Code, Loc: loc, rt: c})
			allSelf = false
		}
		if self != 0 {
			// A skipped redirect is not the answer: the next matching host's route
			// answers, and when no further host has a route the request has no route.
			// (A redirect that only may point back - self == -1 - stays admitted above.)
			ex.SelfLocs = append(ex.SelfLocs, loc)
			cont = true
			if self == 1 {
				ex.MustSkip = append(ex.MustSkip, loc)
			}
		}
	}
	if cont {
		// c13ExpectChain(nil, ...) is the no-route answer
		out = append(out, c13ExpectChain(rest, rq, depth+1, ex)...)
		if allSelf && depth == 0 {
			ex.SkipDemanded = true
		}
	}
	return out
}

// c13Expect: what the statement admits for rq. A host sent with upper-case
// letters is judged under both readings of "matching" (case-insensitive and as
// sent): an answer that either reading admits is admitted.
func c13Expect(sc *c13Scenario, rq *c13Req) *c13Expectation {
	ex := c13ExpectReading(sc, rq, true)
	if strings.ToLower(rq.Host) != rq.Host {
		o := c13ExpectReading(sc, rq, false)
		ex.Acc = append(ex.Acc, o.Acc...)
		ex.SkipDemanded = ex.SkipDemanded && o.SkipDemanded
		ex.SelfLocs = append(ex.SelfLocs, o.SelfLocs...)
		ex.MustSkip = append(ex.MustSkip, o.MustSkip...)
		ex.Later = append(ex.Later, o.Later...)
		ex.Redirect = ex.Redirect || o.Redirect
	}
	return ex
}

func c13ExpectReading(sc *c13Scenario, rq *c13Req, fold bool) *c13Expectation {
	ex := &c13Expectation{}
	cands := c13Candidates(sc, rq, fold)
	ex.Acc = c13ExpectChain(cands, rq, 0, ex)
	if len(cands) > 0 && cands[0].Kind == "redirect" {
		ex.Redirect = true
		for _, c := range cands[1:] {
			switch c.Kind {
			case "proxy":
				ex.Later = append(ex.Later, c13Outcome{Kind: "proxy", Up: c.Up, rt: c})
			case "redirect":
				for _, v := range c13Expand(c, rq) {
					ex.Later = append(ex.Later, c13Outcome{Kind: "redirect", Code: c.Code, Loc: v.location(c.Scheme), rt: c})
				}
			}
		}
	}
	return ex
}

func c13Unescape(s string) string {
	u, err := url.PathUnescape(s)
	if err != nil {
		return s
	}
	return u
}

// c13Judge compares what one request got with what the statement admits.
func c13Judge(r *simcore.Run, rq *c13Req, got c13Outcome, upstreamSaw string, ex *c13Expectation, others map[string]bool) {
	what := fmt.Sprintf("%s %s?%s Host=%s X-Forwarded-Proto=%q%s (id %s)", rq.Method, rq.Path, rq.Query, rq.Host, rq.XFP, c13ExtraString(rq), rq.ID)
	proxyOK := false
	for _, a := range ex.Acc {
		if a.Kind == "any" {
			r.Probe("out_of_range_code_route_reached")
			return
		}
		if a.Kind == "proxy" {
			proxyOK = true
		}
	}
	if upstreamSaw != "" && !proxyOK {
		r.Fail("upstream", "contacted", "%s is answered by a redirect route, yet upstream %s received it (client saw %s)", what, upstreamSaw, got)
		return
	}
	for _, a := range ex.Acc {
		switch {
		case a.Kind == "redirect" && got.Kind == "redirect" && a.Code == got.Code && a.Loc == got.Loc && upstreamSaw == "":
			r.Probe("redirect_answered")
			if c13IsWS(rq.Extra) {
				r.Probe("redirect_answered_to_websocket_upgrade")
			}
			if c13HasHeader(rq.Extra, "Accept") {
				r.Probe("redirect_answered_with_accept_header")
			}
			if rq.BodyLen > 0 {
				r.Probe("redirect_answered_to_request_with_body")
			}
			if a.rt.Strip != "" && !strings.HasPrefix(rq.Path, a.rt.Strip) && strings.Contains(rq.Path, a.rt.Strip) {
				r.Probe("strip_value_inside_path_not_stripped")
			}
			if a.rt.Strip != "" && strings.HasPrefix(rq.Path, a.rt.Strip) && strings.Contains(rq.Path[len(a.rt.Strip):], a.rt.Strip) {
				r.Probe("strip_value_twice_in_path")
			}
			for _, l := range ex.SelfLocs {
				if l == got.Loc {
					r.Probe("unsettled_self_redirect_answered") // e.g. same host and path, scheme known only from the connection
					break
				}
			}
			if strings.Contains(rq.Path, "%") && strings.HasSuffix(a.rt.Form, "$path") {
				r.Probe("escaped_path_into_location")
			}
			if rq.Query != "" && a.rt.TQuery == "" && strings.HasSuffix(a.rt.Form, "$path") {
				r.Probe("request_query_carried")
			}
			if a.rt.ViaTag {
				r.Probe("route_from_urlprefix_tag")
			}
			return
		case a.Kind == "proxy" && got.Kind == "proxy" && a.Up == got.Up:
			r.Probe("proxied_by_next_host")
			return
		case a.Kind == "noroute" && got.Kind == "noroute":
			r.Probe("noroute")
			if len(ex.MustSkip) > 0 {
				r.Probe("self_redirect_skipped_to_no_route")
			}
			return
		}
	}
	var accs []string
	for _, a := range ex.Acc {
		accs = append(accs, a.String())
	}
	admitted := strings.Join(accs, " | ")
	if got.Kind == "redirect" {
		for _, l := range ex.MustSkip {
			if l == got.Loc {
				r.Fail("self-redirect", "not-skipped", "%s: redirected to %s, which is the request's own scheme, host and path: such a redirect is skipped, the next matching host (or, without one, the no-route answer) is due; admitted: %s", what, got.Loc, admitted)
				return
			}
		}
		for _, a := range ex.Acc {
			if a.Kind == "redirect" && a.Loc == got.Loc {
				r.Fail("status", "not-configured-code", "%s: redirected with status %d, the route configures %d (Location %s)", what, got.Code, a.Code, got.Loc)
				return
			}
		}
		for _, a := range ex.Later {
			if a.Kind == "redirect" && a.Loc == got.Loc && a.Code == got.Code {
				r.Fail("self-redirect", "skipped-without-cause", "%s: answered by the next host's route (%s) although the first matching redirect does not point back at the request; admitted: %s", what, got, admitted)
				return
			}
		}
		for _, a := range ex.Acc {
			if a.Kind == "redirect" && c13Unescape(a.Loc) == c13Unescape(got.Loc) {
				note := ""
				if others[got.Loc] {
					note = " (it is the Location of another request of this run)"
				}
				r.Fail("location", "path-encoding/"+a.rt.Form, "%s via target %s: Location %s does not keep the request's percent-encoding%s; admitted: %s", what, c13Target(a.rt), got.Loc, note, admitted)
				return
			}
		}
		if others[got.Loc] {
			r.Fail("cross-request", "location", "%s: got %s, which is the Location of another request of this run; admitted: %s", what, got, admitted)
			return
		}
		if strings.Contains(got.Loc, "$path") || strings.Contains(got.Loc, "$host") {
			r.Fail("location", "unexpanded-variable", "%s: got %s; admitted: %s", what, got, admitted)
			return
		}
		r.Fail("location", "mismatch", "%s: got %s; admitted: %s", what, got, admitted)
		return
	}
	if got.Kind == "proxy" {
		for _, a := range ex.Later {
			if a.Kind == "proxy" && a.Up == got.Up {
				r.Fail("self-redirect", "skipped-without-cause", "%s: proxied by the next host's route to %s although the first matching redirect does not point back at the request; admitted: %s", what, got.Up, admitted)
				return
			}
		}
		r.Fail("upstream", "contacted", "%s: %s; admitted: %s", what, got, admitted)
		return
	}
	if got.Kind == "noroute" {
		r.Fail("status", "no-route-answer", "%s: got the no-route answer; admitted: %s", what, admitted)
		return
	}
	r.Fail("status", "not-configured-code", "%s: got %s; admitted: %s", what, got, admitted)
}

// ---------------------------------------------------------------- execution

type c13Stub struct {
	mu   sync.Mutex
	seen map[string]string // X-Sim-Id -> upstream host
	n    int
}

func (s *c13Stub) RoundTrip(req *http.Request) (*http.Response, error) {
	s.mu.Lock()
	s.n++
	if s.seen == nil {
		s.seen = map[string]string{}
	}
	s.seen[req.Header.Get("X-Sim-Id")] = req.URL.Host
	s.mu.Unlock()
	return &http.Response{StatusCode: 200, Header: http.Header{}, Body: io.NopCloser(strings.NewReader("ok")), Request: req, ProtoMajor: 1, ProtoMinor: 1}, nil
}

func c13H2Req(rq *c13Req) h2Req {
	h := h2Req{ID: rq.ID, Method: rq.Method, Path: rq.Path, Query: rq.Query, Host: rq.Host, Chunks: rq.Chunks,
		Headers: []h2Header{{"Accept-Encoding", "identity"}},
		Resp:    h2Resp{Status: 200, Body: []byte("ok"), Headers: []h2Header{{"Content-Type", "text/plain"}}}}
	if rq.XFP != "" {
		h.Headers = append(h.Headers, h2Header{"X-Forwarded-Proto", rq.XFP})
	}
	h.Headers = append(h.Headers, rq.Extra...)
	if rq.BodyLen > 0 {
		pat := []byte("body-of-" + rq.ID + ";")
		h.Body = bytes.Repeat(pat, rq.BodyLen/len(pat)+1)[:rq.BodyLen]
		h.BodyLen, h.Chunked = rq.BodyLen, rq.Chunked
	}
	return h
}

// c13ExtraString names what else the request carries (for messages and the trace).
func c13ExtraString(rq *c13Req) string {
	var b strings.Builder
	for _, h := range rq.Extra {
		fmt.Fprintf(&b, " %s=%q", h.K, h.V)
	}
	if rq.BodyLen > 0 {
		fmt.Fprintf(&b, " body=%d", rq.BodyLen)
		if rq.Chunked {
			b.WriteString("(chunked)")
		}
	}
	return b.String()
}

func c13Observed(status int, loc string, up string, noRoute int) c13Outcome {
	switch {
	case status >= 300 && status <= 399 && loc != "":
		return c13Outcome{Kind: "redirect", Code: status, Loc: loc}
	case up != "":
		return c13Outcome{Kind: "proxy", Code: status, Up: up}
	case status == noRoute:
		return c13Outcome{Kind: "noroute", Code: status}
	}
	return c13Outcome{Kind: "other", Code: status, Loc: loc}
}

func runC13(r *simcore.Run, modes []string) {
	sc := c13Gen(r, r.Thorough(), modes)
	r.SetSample(sc)
	table := c13Table(sc)
	if _, err := route.NewTable(bytes.NewBufferString(table)); err != nil {
		tag := false
		for _, sl := range sc.Slots {
			for _, rt := range sl.Routes {
				tag = tag || rt.ViaTag
			}
		}
		if tag {
			r.Fail("tag-form", "command-rejected", "a route command generated from a urlprefix- redirect tag is rejected by the table parser: %v\n%s", err, table)
		} else {
			r.Trouble("scenario table does not parse: %v\n%s", err, table)
		}
		return
	}

	cfg := &config.Config{}
	cfg.Proxy.Strategy = "rnd"
	cfg.Proxy.Matcher = "prefix"
	cfg.Proxy.NoRouteStatus = sc.NoRoute
	cfg.GlobCacheSize = 100
	cfg.GlobMatchingDisabled = sc.GlobDisabled
	cfg.Proxy.DialTimeout = 30 * time.Second
	noroute.SetHTML("")

	// expectations, from the scenario alone
	expect := map[string]*c13Expectation{}
	var order []*c13Req
	redirects := 0
	for ci := range sc.Clients {
		for qi := range sc.Clients[ci].Reqs {
			rq := &sc.Clients[ci].Reqs[qi]
			ex := c13Expect(sc, rq)
			expect[rq.ID] = ex
			order = append(order, rq)
			if ex.Redirect {
				redirects++
			}
			if ex.SkipDemanded {
				r.Probe("self_redirect_skip_demanded")
			}
		}
	}
	// pairs of related requests on one redirect route (coverage of "from the request alone")
	hostName := func(h string) string {
		if i := strings.LastIndex(h, ":"); i >= 0 {
			h = h[:i]
		}
		return strings.ToLower(h)
	}
	for i, p := range order {
		for _, q := range order[i+1:] {
			if p.Slot != q.Slot || !expect[p.ID].Redirect || !expect[q.ID].Redirect {
				continue
			}
			switch {
			case p.Host == q.Host && p.Path == q.Path && p.Query == q.Query && p.XFP == q.XFP:
				r.Probe("pair_identical_requests")
			case p.Host == q.Host && p.Path == q.Path && p.Query == q.Query:
				r.Probe("pair_differs_in_forwarded_proto_only")
			case p.Host == q.Host && p.Query == q.Query && p.Path != q.Path && c13Unescape(p.Path) == c13Unescape(q.Path):
				r.Probe("pair_same_decoded_path_other_encoding")
			case p.Host == q.Host && p.Query == q.Query && strings.EqualFold(c13Unescape(p.Path), c13Unescape(q.Path)):
				r.Probe("pair_same_path_other_letter_case")
			case p.Host == q.Host && p.Path == q.Path:
				r.Probe("pair_same_path_other_query")
			case p.Path == q.Path && p.Query == q.Query && hostName(p.Host) == hostName(q.Host):
				r.Probe("pair_same_host_other_spelling")
			}
		}
	}
	// Locations admitted for the other requests (to name cross-talk when it happens)
	othersOf := func(id string) map[string]bool {
		own := map[string]bool{}
		for _, a := range expect[id].Acc {
			own[a.Loc] = true
		}
		m := map[string]bool{}
		for _, rq := range order {
			if rq.ID == id {
				continue
			}
			for _, a := range expect[rq.ID].Acc {
				if a.Kind == "redirect" && !own[a.Loc] {
					m[a.Loc] = true
				}
			}
		}
		return m
	}

	e := h2NewEnv(r, cfg, table)
	defer e.finish()
	e.d.Stick = sc.Stick
	concurrent := 0
	if sc.Mode != "event" && sc.Mode != "sequence" {
		e.d.Sim.Activate("route", "proxy", "main")
		e.d.Invariant = func() {
			if e.d.Sim.InFunc("route", "Table.Lookup")+e.d.Sim.InFunc("route", "*Target.BuildRedirectURL")+e.d.Sim.InFunc("route", "Table.lookup")+e.d.Sim.InFunc("route", "Table.matchingHost") >= 2 {
				concurrent++
			}
		}
	}

	got := map[string]c13Outcome{}
	sawUp := map[string]string{}

	switch sc.Mode {
	case "tasks", "sequence":
		// sequence: the one caller runs through without a single yield site being live
		stub := &c13Stub{}
		e.proxy.Transport = stub
		e.proxy.InsecureTransport = stub
		type res struct {
			status int
			loc    string
		}
		results := make([][]res, len(sc.Clients))
		for i := range sc.Clients {
			i := i
			cl := &sc.Clients[i]
			e.d.Sim.Spawn(fmt.Sprintf("req%d", i), func() {
				for k := range cl.Reqs {
					h := c13H2Req(&cl.Reqs[k])
					req, err := http.ReadRequest(bufio.NewReader(bytes.NewReader(h2RenderRequest(&h))))
					if err != nil {
						r.Trouble("generated request does not parse: %v", err)
						return
					}
					req.RemoteAddr = cl.Addr
					rec := httptest.NewRecorder()
					e.proxy.ServeHTTP(rec, req)
					results[i] = append(results[i], res{rec.Code, rec.Header().Get("Location")})
				}
			})
		}
		if !e.d.Run(400000, func() bool { return e.d.Sim.Pending() == 0 }) {
			r.Trouble("tasks did not finish: %v", e.d.Sim.TaskStates())
			return
		}
		for i := range sc.Clients {
			for k := range sc.Clients[i].Reqs {
				rq := &sc.Clients[i].Reqs[k]
				if k >= len(results[i]) {
					continue // the task panicked; recorded by the panic handler
				}
				sawUp[rq.ID] = stub.seen[rq.ID]
				got[rq.ID] = c13Observed(results[i][k].status, results[i][k].loc, sawUp[rq.ID], sc.NoRoute)
			}
		}
	default:
		if sc.Mode == "event-adopted" {
			var mu sync.Mutex
			perConn := map[string]int{}
			e.wrap = func(h http.Handler) http.Handler {
				return http.HandlerFunc(func(w http.ResponseWriter, req *http.Request) {
					mu.Lock()
					k := perConn[req.RemoteAddr]
					perConn[req.RemoteAddr]++
					mu.Unlock()
					defer simhook.Adopt(fmt.Sprintf("h/%s/%d", req.RemoteAddr, k))()
					h.ServeHTTP(w, req)
				})
			}
		}
		e.serve(nil)
		for _, sl := range sc.Slots {
			for _, rt := range sl.Routes {
				if rt.Up != "" {
					e.upstream(rt.Up, simnet.ListenOpts{}, nil)
				}
			}
		}
		for ci := range sc.Clients {
			cl := &h2Client{Addr: sc.Clients[ci].Addr}
			for qi := range sc.Clients[ci].Reqs {
				cl.Reqs = append(cl.Reqs, c13H2Req(&sc.Clients[ci].Reqs[qi]))
			}
			e.client(cl)
		}
		if !e.run(400000, 30*time.Minute) {
			r.Trouble("clients did not finish: %v", e.d.Sim.TaskStates())
			return
		}
		for _, rq := range order {
			res := e.results[rq.ID]
			if res == nil {
				r.Trouble("no result for %s", rq.ID)
				return
			}
			if seen := e.seen[rq.ID]; len(seen) > 0 {
				sawUp[rq.ID] = seen[0].Upstream
			}
			if res.Err != nil {
				r.Fail("response", "none", "request %s %s (id %s) got no response: %v", rq.Method, rq.Path, rq.ID, res.Err)
				continue
			}
			got[rq.ID] = c13Observed(res.Status, res.Header.Get("Location"), sawUp[rq.ID], sc.NoRoute)
		}
	}

	// No upstream is contacted: every connection fabio opened - to whatever address, the
	// host named in a redirect target included - belongs to a request that a plain route
	// may answer (in tasks mode the transport is a stub, so there nothing is dialled at all).
	proxyable := map[string]int{}
	for _, rq := range order {
		counted := map[string]bool{}
		for _, a := range expect[rq.ID].Acc {
			if (a.Kind == "proxy" || a.Kind == "any") && !counted[a.rt.Up] {
				counted[a.rt.Up] = true
				proxyable[a.rt.Up]++
			}
		}
	}
	dials := map[string]int{}
	for _, dr := range e.net.DialLog {
		dials[dr.Key]++
	}
	for _, dr := range e.net.DialLog {
		if dials[dr.Key] > proxyable[dr.Key] {
			r.Fail("upstream", "dialled", "fabio dialled %s %d times; only %d requests of the run may be answered by a plain route to it", dr.Key, dials[dr.Key], proxyable[dr.Key])
			break
		}
	}

	for _, rq := range order {
		g, ok := got[rq.ID]
		if !ok {
			continue
		}
		r.Tracef("%s %s %s%s?%s xfp=%s%s -> %s up=%q", rq.ID, rq.Method, rq.Host, rq.Path, rq.Query, rq.XFP, c13ExtraString(rq), g, sawUp[rq.ID])
		c13Judge(r, rq, g, sawUp[rq.ID], expect[rq.ID], othersOf(rq.ID))
	}
	if redirects > 0 {
		r.Nontrivial()
	}
	if concurrent > 0 {
		r.Probe("two_requests_inside_lookup")
	}
	r.Probe("mode_" + sc.Mode)
}
